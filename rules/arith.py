"""Arithmetic census (rule ids NN.N): the arithmetic of a reviewed function does not change silently.

Value arithmetic is out of reach of a static argument (section 5), but WHICH arithmetic a function performs is structure: per function the number
of operations per (group, flavour) - group = add/sub (one class: `h >= e - B` and `h + B >= e` are the same rule), mul, div, rem, shift, bit,
min, max, div_ceil, abs_diff, pow; flavour = plain / checked / saturating / wrapping / overflowing.  A dropped or added `+ 1`, a rounding
direction (`/` for div_ceil), saturating for checked, min for max, a value scaled twice, the wrong one of two similar formulas all change a count
while every guard, call and comparison stays in place.  The table (rules/arith_table.json, per build profile) holds the counts of the reviewed
tree; for a function the table knows, no kind (group, flavour) is lost or gained altogether (plain count changes are not judged: hoisting,
arm splitting and merging change them without changing behaviour).  Comparisons and bool `|` / `&` are not counted (the guard rules normalise and judge them); new
functions are not judged.  A kind that a function loses is accepted when a workspace function it calls performs it (the arithmetic was moved into a
helper), a kind it gains when a reviewed function of the same file that performed it is gone (a helper was inlined)."""
import json, os, collections, re
from engine import *

_GROUP = {'Add': 'addsub', 'Sub': 'addsub', 'Mul': 'mul', 'Div': 'div', 'Rem': 'rem', 'Shl': 'shift', 'Shr': 'shift', 'BitAnd': 'bit', 'BitOr': 'bit', 'BitXor': 'bit'}
_METH = re.compile(r'(?:core::num::|core::cmp::|core::time::|bitcoin_units::|bitcoin::).*?(?:::)?(checked|saturating|wrapping|overflowing)_(add|sub|mul|div|rem|pow|shl|shr|neg|abs)(?:_unsigned|_signed)?$')

def classify(f):
	f = f or ''
	tail = f.rsplit('::', 1)[-1]
	m = _METH.search(f)
	if m:
		op = m.group(2)
		grp = {'add': 'addsub', 'sub': 'addsub', 'mul': 'mul', 'div': 'div', 'rem': 'rem', 'pow': 'pow', 'shl': 'shift', 'shr': 'shift', 'neg': 'neg', 'abs': 'abs'}[op]
		return (grp, m.group(1))
	if tail in ('min', 'max') and f.startswith(('core::cmp::', 'core::cmp::Ord::', 'core::num::', 'core::iter::')):
		return (tail, 'plain')
	if f.endswith(('Ord::min', 'Ord::max')):
		return (tail, 'plain')
	if tail in ('div_ceil', 'abs_diff', 'pow', 'next_power_of_two', 'leading_zeros', 'trailing_zeros', 'isqrt', 'ilog2', 'rotate_left', 'rotate_right') and f.startswith('core::num::'):
		return (tail, 'plain')
	if tail in ('add', 'sub', 'mul', 'div', 'rem') and re.search(r'core::ops::arith::(Add|Sub|Mul|Div|Rem)::', f):
		return ({'add': 'addsub', 'sub': 'addsub'}.get(tail, tail), 'trait')
	if tail in ('add_assign', 'sub_assign', 'mul_assign', 'div_assign') and 'core::ops::arith::' in f:
		return ({'add_assign': 'addsub', 'sub_assign': 'addsub'}.get(tail, tail[:-7]), 'trait')
	return None

def _unwrapped_to_bound(fu, ci):
	"""the Option a checked_add / checked_sub returns goes (only) into `unwrap_or(<the bound it saturates at>)`"""
	d = ci.get('dest')
	if not d or len(d) != 1:
		return False
	tail = norm(ci.get('f') or '').rsplit('::', 1)[-1]
	for b, c2 in fu.calls():
		f2 = norm(c2.get('f') or '')
		if not f2.endswith(('Option::<T>::unwrap_or', 'Option::unwrap_or')) or len(c2['args']) != 2:
			continue
		a0, a1 = c2['args']
		if a0[0] in ('c', 'm') and a0[1] == d and a1[0] == 'k' and isinstance(a1[1], dict):
			v = a1[1].get('v')
			if tail.startswith('checked_sub') and v == 0:
				return True
			if tail.startswith('checked_add') and isinstance(v, int) and v in (2 ** 8 - 1, 2 ** 16 - 1, 2 ** 32 - 1, 2 ** 64 - 1, 2 ** 128 - 1):
				return True
	return False

_C = {}
_CALLEES = {}

def census(F):
	if F.dir in _C:
		return _C[F.dir]
	_CALLEES[F.dir] = {}
	tab = collections.Counter()
	where = {}
	known = collections.defaultdict(set)
	for n, r in F.fns.items():
		if not n.startswith(('lightning', '<lightning')) or 'ser_macros' in r['file'] or F.impl_kind.get(root_fn(n)) == 'derived':
			continue
		fl = r['file'].split('/')[0] + ':' + (r['file'].split('src/')[-1] if 'src/' in r['file'] else r['file'])
		tail = root_fn(n).rsplit('::', 1)[-1]
		known[fl].add(tail)
		try:
			fu = F.func(n)
		except AnchorMissing:
			continue
		for bi, si, s in fu.stmts():
			if fu.is_cleanup(bi):
				continue
			rv = s[2]
			if rv[0] == 'bin':
				op = rv[1][:-len('WithOverflow')] if rv[1].endswith('WithOverflow') else rv[1]
				op = op[:-len('Unchecked')] if op.endswith('Unchecked') else op
				g = _GROUP.get(op)
				if g is None:
					continue
				# `a | b` / `a & b` on bools is logic, not arithmetic (a non-short-circuit disjunction is equivalent to `||` on pure operands)
				if g == 'bit' and len(s[1]) == 1 and (fu.locals[s[1][0]].get('ty') or '') == 'bool':
					continue
				# index / length bookkeeping the compiler inserts (slice patterns, loops over ranges) is typed usize with a constant operand of 1 in
				# desugared code without a source expression; it cannot be told apart reliably, so it is counted like everything else
				k = (fl, tail, g, 'plain')
				tab[k] += 1
				where.setdefault(k, (n, s[0]))
			elif rv[0] == 'un' and rv[1] == 'Neg':
				k = (fl, tail, 'neg', 'plain'); tab[k] += 1; where.setdefault(k, (n, s[0]))
		for b, ci in fu.calls():
			if fu.is_cleanup(b):
				continue
			cf = norm(ci.get('f') or ci.get('t') or '')
			if cf.startswith(('lightning', '<lightning')):
				_CALLEES[F.dir].setdefault((fl, tail), set()).add(root_fn(cf).rsplit('::', 1)[-1])
			c = classify(norm(ci.get('f') or '')) or (classify(norm(ci.get('t'))) if ci.get('t') else None)
			if c and c[1] == 'checked' and c[0] == 'addsub' and _unwrapped_to_bound(fu, ci):
				# `a.checked_sub(b).unwrap_or(0)` IS `a.saturating_sub(b)` (and `checked_add(..).unwrap_or(MAX)` is saturating_add): recorded under a
				# pseudo-flavour that is not judged itself but lets the judgement below accept checked <-> saturating for this function and group
				kb = (fl, tail, c[0], 'checked~bound'); tab[kb] += 1
			if c:
				k = (fl, tail, c[0], c[1]); tab[k] += 1; where.setdefault(k, (n, fu.line_of(b)))
	_C[F.dir] = (tab, where, known)
	return _C[F.dir]

_T = None
def table():
	global _T
	if _T is None:
		_T = json.load(open(os.path.join(os.path.dirname(os.path.abspath(__file__)), 'arith_table.json')))
	return _T

def rule(F, rule_id, file_res, floor=1):
	tab, where, known = census(F)
	prof = 'dev' if F.dir.rstrip('/').endswith('-dev') else 'release'
	T = table().get(prof)
	if T is None:
		return [Result(rule_id, False, 'anchor:arith-table', 'no reviewed arithmetic table for build profile %s' % prof)]
	reviewed = {tuple(r[:4]): r[4] for r in T['counts']}
	fns = {tuple(x) for x in T['functions']}
	out = []
	n = 0
	keys = set(reviewed) | set(tab)
	for k in sorted(keys):
		fl, tail, g, fv = k
		if not any(re.search(p, fl.replace(':', '/src/')) for p in file_res):
			continue
		if (fl, tail) not in fns or tail not in known.get(fl, ()):
			continue
		if fv == 'checked~bound':
			continue
		a, b = reviewed.get(k, 0), tab.get(k, 0)
		n += max(a, b)
		if (a == 0) != (b == 0) and fv in ('checked', 'saturating'):
			rb, cb = reviewed.get((fl, tail, g, 'checked~bound'), 0), tab.get((fl, tail, g, 'checked~bound'), 0)
			other = 'saturating' if fv == 'checked' else 'checked'
			# checked + unwrap_or(bound) on one side, saturating on the other: the same arithmetic
			if fv == 'checked' and b == 0 and rb and tab.get((fl, tail, g, other), 0):
				continue
			if fv == 'saturating' and a == 0 and rb:
				continue
			if fv == 'saturating' and b == 0 and cb:
				continue
			if fv == 'checked' and a == 0 and cb and reviewed.get((fl, tail, g, other), 0):
				continue
		# judged: a KIND of arithmetic that a function loses or gains altogether (div_ceil -> /, checked -> saturating, the only min becoming a max).
		# Plain count changes are NOT judged: hoisting a common sub-expression into a local, splitting a match arm or merging two arms changes how
		# often an operation is written without changing what is computed (three negative controls raised exactly these alarms against the first,
		# count-exact version of this rule).
		if (a == 0) != (b == 0):
			if b == 0:
				# the kind moved into a helper the function now calls (an existing one, or one extracted from it): some workspace callee performs it
				by_tail = {}
				for (fl2, t2, g2, fv2), c2 in tab.items():
					if c2:
						by_tail.setdefault(t2, set()).add((g2, fv2))
				if any((g, fv) in by_tail.get(ct, ()) for ct in _CALLEES[F.dir].get((fl, tail), ())):
					continue
			else:
				# the kind came in with a helper that was inlined: a reviewed function of the same file that performed it no longer exists
				if any(r[0] == fl and r[2] == g and r[3] == fv and r[4] and r[1] not in known.get(fl, ()) for r in T['counts']):
					continue
			fn, line = where.get(k, (None, None))
			if fn is None:
				cands = [x for x in F.fns if root_fn(x).rsplit('::', 1)[-1] == tail and F.fns[x]['file'].endswith(fl.split(':', 1)[1])]
				fn = cands[0] if cands else None
			out.append(Result(rule_id, False, 'arith:%s:%s/%s' % (tail, g, fv), '%s performs %d %s %s operation(s) (reviewed: %d): a kind of arithmetic the function did not use before, or no longer uses at all - a changed rounding direction (`/` for div_ceil), saturating for checked, min for max - while its guards and calls stayed in place' % (tail, b, fv, g, a), 1, where=F.where(fn, line) if fn else fl))
	if n < floor:
		return [Result(rule_id, False, 'anchor:arith', 'only %d reviewed arithmetic operations left in %s (expected >= %d)' % (n, file_res, floor))]
	if not out:
		out.append(Result(rule_id, True, 'ok:arith', '%d arithmetic operations in the reviewed functions of %s: no function lost or gained a kind (group, flavour) of arithmetic' % (n, '|'.join(file_res)), n))
	return out

SCOPE = {
	'C01': ([r'ln/channel\.rs$', r'ln/chan_utils\.rs$', r'sign/tx_builder\.rs$', r'ln/interactivetxs\.rs$', r'ln/funding\.rs$'], 608),
	'C02': ([r'ln/channelmanager\.rs$', r'ln/onion_payment\.rs$'], 154),
	'C03': ([r'ln/outbound_payment\.rs$'], 28),
	'C04': ([r'ln/inbound_payment\.rs$', r'ln/channelmanager\.rs$'], 167),
	'C05': ([r'ln/channel\.rs$', r'ln/chan_utils\.rs$', r'sign/mod\.rs$'], 461),
	'C06': ([r'chain/channelmonitor\.rs$', r'chain/onchaintx\.rs$', r'chain/package\.rs$'], 310),
	'C07': ([r'chain/channelmonitor\.rs$', r'chain/onchaintx\.rs$', r'chain/package\.rs$', r'util/sweep\.rs$', r'events/bump_transaction/', r'sign/mod\.rs$'], 363),
	'C09': ([r'chain/chainmonitor\.rs$', r'util/persist\.rs$'], 5),
	'C11': ([r'chain/channelmonitor\.rs$', r'chain/onchaintx\.rs$'], 206),
	'C13': ([r'ln/msgs\.rs$', r'ln/wire\.rs$', r'util/ser\.rs$', r'onion_message/packet\.rs$'], 99),
	'C14': ([r'ln/onion_utils\.rs$', r'ln/onion_payment\.rs$', r'blinded_path/'], 175),
	'C15': ([r'ln/peer_handler\.rs$', r'ln/peer_channel_encryptor\.rs$', r'crypto/'], 51),
	'C16': ([r'routing/router\.rs$', r'routing/scoring\.rs$'], 431),
	'C17': ([r'routing/gossip\.rs$', r'routing/utxo\.rs$', r'lightning-rapid-gossip-sync/'], 98),
	'C18': ([r'lightning-invoice/', r'offers/'], 96),
	'C19': ([r'util/persist\.rs$', r'lightning-persister/'], 5),
	'C20': ([r'lightning-block-sync/'], 16),
}

def for_property(F, pid, rule_id):
	res, floor = SCOPE[pid]
	return rule(F, rule_id, res, floor)
