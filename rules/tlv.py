"""P10: agreement between hand-written TLV writer and reader tables (un-expanded macro tables from synx)."""
import json, os, re, collections, subprocess
from engine import Result, AnchorMissing

WRITER_MACROS = ('write_tlv_fields', 'encode_tlv_stream', '_encode_varint_length_prefixed_tlv')
READER_MACROS = ('read_tlv_fields', '_init_and_read_len_prefixed_tlv_fields', 'decode_tlv_stream',
	'decode_tlv_stream_with_custom_tlv_decode', '_init_and_read_tlv_stream')
SYMMETRIC_MACROS = ('impl_ser_tlv_based', 'impl_writeable_tlv_based_enum', 'impl_writeable_tlv_based_enum_upgradable',
	'impl_writeable_tlv_based_enum_legacy', 'impl_writeable_tlv_based_enum_upgradable_legacy', 'impl_writeable_msg', 'tlv_stream')

def load(facts):
	p = os.path.join(facts.dir, 'tlv.jsonl')
	if not os.path.exists(p):
		raise AnchorMissing('tlv.jsonl missing in facts dir (synx did not run)')
	out = []
	summary = None
	for l in open(p):
		j = json.loads(l)
		if j.get('summary'):
			summary = j
			continue
		f = j['file']
		i = f.find('/lightning')
		j['rel'] = f[i + 1:] if i >= 0 else f
		j['self'] = self_type(j['impl'])
		j['trait'] = trait_of(j['impl'])
		j['arm_id'] = arm_id(j['arm'], f)
		out.append(j)
	if summary is None or summary.get('failed'):
		raise AnchorMissing('synx failed to parse: %s' % (summary or {}).get('failed'))
	return out

def self_type(impl):
	m = re.search(r' for (.*)$', impl)
	t = m.group(1) if m else impl
	t = re.sub(r'<.*>', '', t).strip()
	t = t.split('::')[-1].strip()
	return t

def trait_of(impl):
	m = re.match(r'(.*) for ', impl)
	if not m:
		return ''
	t = re.sub(r'<.*>', '', m.group(1)).strip()
	return t.split('::')[-1].strip()

def parse_int(s):
	s = s.strip().replace('_', '')
	m = re.match(r'^(0x[0-9a-fA-F]+|\d+)(u8|u16|u32|u64|usize|i32|i64)?$', s)
	if not m:
		return None
	return int(m.group(1), 0)

_SRC = {}
def _const_in_file(path, ident):
	if path not in _SRC:
		try:
			_SRC[path] = open(path, encoding='utf-8', errors='replace').read()
		except OSError:
			_SRC[path] = ''
	m = re.search(r'const\s+%s\s*:\s*\w+\s*=\s*([0-9a-fx_]+)\s*;' % re.escape(ident), _SRC[path])
	return parse_int(m.group(1)) if m else None

def arm_id(arm, path=None):
	if not arm:
		return None
	m = re.search(r'@id=(\S+)$', arm)
	if m:
		v = parse_int(m.group(1))
		if v is None and path and re.match(r'^[A-Z_][A-Z0-9_]*$', m.group(1)):
			v = _const_in_file(path, m.group(1))
		return v
	ids = [parse_int(x) for x in arm.split('|')]
	if ids and all(i is not None for i in ids):
		return ids[0]
	return None

def entry_types(t):
	"""list of (type number or symbolic string, field, kind)"""
	out = []
	for e in t['entries']:
		n = parse_int(e['type'])
		out.append((n if n is not None else e['type'], e['field'], e['kind']))
	return out

ALWAYS_WRITTEN = ('required', 'required_vec', 'upgradable_required', 'static_value', 'legacy')

def kind_class(kind):
	k = kind.strip()
	if k.startswith('(') and k.endswith(')'):
		k = k[1:-1].strip()
	head = k.split(',')[0].strip()
	if head in ('required', 'required_vec', 'upgradable_required'):
		return 'always'
	if head == 'default_value' or head == 'static_value':
		return 'always' if head == 'default_value' else 'never'
	if head in ('option', 'optional_vec', 'upgradable_option', 'option_encoding'):
		return 'maybe'
	if head == 'legacy':
		return 'maybe'
	if head == 'custom':
		return 'maybe'
	return 'maybe'

def reader_requires(kind):
	k = kind.strip()
	if k.startswith('('):
		k = k[1:-1].strip()
	head = k.split(',')[0].strip()
	return head in ('required', 'required_vec', 'upgradable_required')

class Pair:
	def __init__(self, name, writers, readers, note=''):
		self.name = name
		self.writers = writers
		self.readers = readers
		self.note = note

def desc(t):
	return '%s:%d %s in %s::%s%s' % (t['rel'], t['line'], t['macro'], t['self'] or '-', t['fn'], (' arm ' + t['arm'][:40]) if t['arm'] else '')

# ---- explicit cross-type pairs: (writer locator, reader locator); locator = (file suffix, self type, fn or None)
MANUAL = [
	('blinded payment TLVs', [('blinded_path/payment.rs', 'ForwardTlvs', 'write'), ('blinded_path/payment.rs', 'ReceiveTlvs', 'write'), ('blinded_path/payment.rs', 'DummyTlvs', 'write')],
		[('blinded_path/payment.rs', 'BlindedPaymentTlvs', 'read')]),
	('blinded trampoline TLVs', [('blinded_path/payment.rs', 'TrampolineForwardTlvs', 'write')], [('blinded_path/payment.rs', 'BlindedTrampolineTlvs', 'read')]),
	('blinded message control TLVs', [('blinded_path/message.rs', 'ForwardTlvs', 'write'), ('blinded_path/message.rs', 'ReceiveTlvs', 'write'), ('blinded_path/message.rs', 'DummyTlv', 'write')],
		[('onion_message/packet.rs', 'ControlTlvs', 'read')]),
	('ChannelMonitor', [('chain/channelmonitor.rs', '', 'write_chanmon_internal')], [('chain/channelmonitor.rs', 'Option', 'read')]),
	('ClaimableHTLC', [('ln/channelmanager.rs', '', 'write_claimable_htlc')], [('ln/channelmanager.rs', '(ClaimableHTLC , u64)', 'read')]),
	('ChannelManager', [('ln/channelmanager.rs', 'ChannelManager', 'write')], [('ln/channelmanager.rs', 'ChannelManagerData', 'read')]),
	('PendingFunding', [('ln/channel.rs', 'PendingFundingWriteable', 'write')], [('ln/channel.rs', 'PendingFunding', 'read')]),
	('onion payload (outbound -> inbound)', [('ln/msgs.rs', 'OutboundOnionPayload', 'write')], [('ln/msgs.rs', 'InboundOnionPayload', 'read')]),
	('trampoline payload (outbound -> inbound)', [('ln/msgs.rs', 'OutboundTrampolinePayload', 'write')], [('ln/msgs.rs', 'InboundTrampolinePayload', 'read')]),
	('onion message payload', [('onion_message/packet.rs', '(Payload , [u8 ; 32])', 'write')], [('onion_message/packet.rs', 'Payload', 'read')]),
]
# pairs that belong to the onion / onion-message wire formats (checked under C14 / C13, not C12)
ONION_PAIRS = ('blinded payment TLVs', 'blinded trampoline TLVs', 'blinded message control TLVs', 'onion payload (outbound -> inbound)',
	'trampoline payload (outbound -> inbound)', 'onion message payload')

# written odd types that the reader intentionally ignores (pair name, type) -> reason
UNREAD_ODD_OK = {
	('trampoline payload (outbound -> inbound)', 21): 'OutboundTrampolinePayload::LegacyBlindedPathEntry is addressed to a non-LDK trampoline node that pays a legacy (non-trampoline) blinded recipient; LDK does not act as that node, so InboundTrampolinePayload has no reader for it (design limitation, not a codec slip)',
	('trampoline payload (outbound -> inbound)', 22): 'same: LegacyBlindedPathEntry blinded paths, consumed by other implementations only',
	('onion message payload', 'message . tlv_type ()'): 'the message TLV type is dynamic; the reader handles it in the custom-TLV closure of decode_tlv_stream_with_custom_tlv_decode',
	('lightning/src/events/mod.rs Event variant id 3', 3): 'legacy `rejected_by_dest`-era field written as constant false for downgrade compatibility',
	('lightning/src/events/mod.rs Event variant id 3', 9): 'legacy retry field written as constant None for downgrade compatibility',
}

# writer-only / reader-only tables that are legitimately unpaired, with the reason
UNPAIRED_OK = {
	('ln/channelmanager.rs', 'HTLCSource', 'write#2'): 'HTLCSource::TrampolineForward: the reader intentionally refuses this variant (code comment: no downgrades with in-flight trampoline forwards); trampoline forwarding is not dispatched in this version',
	('events/mod.rs', 'Event', 'write#27'): 'Event::BumpTransaction is written as an empty table and read back as None; such events are regenerated, never queued in a persisted list',
	('events/mod.rs', 'Event', 'read#33'): 'reader-only legacy variant (InvoiceRequestFailed before 0.0.124)',
	('chain/channelmonitor.rs', '', 'write_legacy_holder_commitment_data'): 'legacy section for downgrade compatibility; read positionally by older versions only',
	('blinded_path/utils.rs', 'BlindedPathWithPadding', 'write'): 'padding wrapper: writes a padding TLV (type 1) that readers skip as unknown odd',
	('routing/gossip.rs', 'NetworkUpdate', 'read#0'): 'reader-only legacy variant (ChannelUpdateMessage) no longer written',
}

def match_loc(t, loc):
	f, st, fn = loc
	return t['rel'].endswith(f) and norm_ws(t['self']) == norm_ws(st) and (fn is None or t['fn'] == fn)

def norm_ws(s):
	return re.sub(r'\s+', '', s)

def build_pairs(tables):
	"""returns (pairs, leftovers)"""
	W = [t for t in tables if t['macro'] in WRITER_MACROS]
	R = [t for t in tables if t['macro'] in READER_MACROS]
	# impl_writeable_tlv_based!(T, self, {...}) : writer only
	for t in tables:
		if t['macro'] == 'impl_writeable_tlv_based':
			t2 = dict(t)
			t2['self'] = t['first_arg'].split('::')[-1].strip()
			t2['fn'] = 'write'
			W.append(t2)
	used = set()
	pairs = []
	for name, wl, rl in MANUAL:
		ws = [t for t in W if any(match_loc(t, l) for l in wl)]
		rs = [t for t in R if any(match_loc(t, l) for l in rl)]
		pairs.append(Pair(name, ws, rs, 'manual'))
		used |= {id(t) for t in ws + rs}
	by = collections.defaultdict(lambda: {'w': [], 'r': []})
	for t in W:
		if id(t) not in used:
			by[(t['rel'], t['self'])]['w'].append(t)
	for t in R:
		if id(t) not in used:
			by[(t['rel'], t['self'])]['r'].append(t)
	left = []
	for (rel, st), v in sorted(by.items()):
		ws, rs = v['w'], v['r']
		if len(ws) == 1 and len(rs) == 1:
			pairs.append(Pair('%s %s' % (rel, st), ws, rs, 'auto 1:1'))
			continue
		if ws and rs and all(t['arm_id'] is not None for t in ws) and all(t['arm_id'] is not None for t in rs):
			ids = sorted({t['arm_id'] for t in ws} | {t['arm_id'] for t in rs})
			for i in ids:
				wi = [t for t in ws if t['arm_id'] == i]
				ri = [t for t in rs if t['arm_id'] == i]
				if wi and ri:
					pairs.append(Pair('%s %s variant id %d' % (rel, st, i), wi, ri, 'auto by variant id'))
				else:
					for t in wi + ri:
						left.append(t)
			continue
		for t in ws + rs:
			left.append(t)
	return pairs, left

def check_pair(rule, p):
	out = []
	key = 'tlv:' + p.name
	if not p.writers or not p.readers:
		return [Result(rule, False, 'anchor:' + key, 'TLV pair %s: %d writer table(s), %d reader table(s) found (anchor missing)' % (p.name, len(p.writers), len(p.readers)))]
	rtypes = {}
	for r in p.readers:
		for n, f, k in entry_types(r):
			rtypes.setdefault(n, []).append((f, k, r))
	cells = 0
	for w in p.writers:
		prev = -1
		for n, f, k in entry_types(w):
			cells += 1
			if isinstance(n, int):
				if n <= prev:
					out.append(Result(rule, False, 'order:%s:%s' % (key, n), '%s: TLV type %s is not strictly greater than the previous type %s (the reader rejects out-of-order streams)' % (desc(w), n, prev), 1, where='%s:%d' % (w['rel'], w['line'])))
				prev = n
			if n not in rtypes and (p.name, n) in UNREAD_ODD_OK:
				continue
			if n not in rtypes:
				sev = 'even (readers will REJECT the object)' if isinstance(n, int) and n % 2 == 0 else 'odd (silently dropped on read)'
				out.append(Result(rule, False, 'unread:%s:%s' % (key, n), '%s writes TLV type %s (%s) which no paired reader table reads: %s; reader(s): %s' % (desc(w), n, f, sev, [desc(r) for r in p.readers]), 1, where='%s:%d' % (w['rel'], w['line'])))
	# reader-required types must be written unconditionally by every writer variant that pairs with it
	for r in p.readers:
		for n, f, k in entry_types(r):
			cells += 1
			if not reader_requires(k):
				continue
			for w in p.writers:
				wk = [kk for nn, ff, kk in entry_types(w) if nn == n]
				if len(p.writers) > 1 and p.note == 'manual':
					# several writer variants share one reader: the reader's `required` is checked after
					# the variant is known (hand-written), not by the table
					continue
				if not wk:
					out.append(Result(rule, False, 'required-unwritten:%s:%s' % (key, n), '%s requires TLV type %s (%s) but %s never writes it' % (desc(r), n, f, desc(w)), 1, where='%s:%d' % (w['rel'], w['line'])))
				elif kind_class(wk[0]) != 'always':
					out.append(Result(rule, False, 'required-optional:%s:%s' % (key, n), '%s requires TLV type %s (%s) but %s writes it only conditionally (%s)' % (desc(r), n, f, desc(w), wk[0]), 1, where='%s:%d' % (w['rel'], w['line'])))
	# crossed names: the reader stores type n into the variable the writer's type m (m != n) is named after
	if len(p.writers) == 1 and len(p.readers) == 1:
		def tail_ident(x):
			ids = re.findall(r'[A-Za-z_][A-Za-z0-9_]*', x)
			ids = [i for i in ids if i not in ('self', 'ref', 'mut', 'as', 'Some', 'None', 'unwrap', 'clone', 'map', 'as_ref', 'iter', 'collect')]
			return ids[-1] if ids else None
		def nn(x):
			if x is None:
				return None
			x = x.lstrip('_')
			for suf in ('_opt', '_ser', '_legacy', '_wrapper', '_read'):
				if x.endswith(suf):
					x = x[:-len(suf)]
			return x
		wn = {n: nn(tail_ident(f)) for n, f, k in entry_types(p.writers[0])}
		rn = {n: nn(tail_ident(f)) for n, f, k in entry_types(p.readers[0])}
		for n in wn:
			if n in rn and wn[n] and rn[n] and wn[n] != rn[n]:
				for m in wn:
					# the reader names its variable for type n after what the writer puts in type m
					if m != n and m in rn and wn[m] == rn[n] and rn[m] != wn[m]:
						out.append(Result(rule, False, 'crossed:%s:%s:%s' % (key, n, m), '%s writes `%s` as type %s and `%s` as type %s, but %s reads type %s into `%s` and type %s into `%s` (swapped)' % (
							desc(p.writers[0]), wn[n], n, wn[m], m, desc(p.readers[0]), n, rn[n], m, rn[m]), 2, where='%s:%d' % (p.writers[0]['rel'], p.writers[0]['line'])))
	if not out:
		out.append(Result(rule, True, 'ok:' + key, 'TLV pair %s: %d writer / %d reader table(s), %d cells agree' % (p.name, len(p.writers), len(p.readers), cells), cells))
	return out

def check_symmetric(rule, tables):
	"""tables generated for both directions by one macro: type numbers strictly increasing per group"""
	out = []
	n = 0
	for t in tables:
		if t['macro'] not in SYMMETRIC_MACROS:
			continue
		groups = collections.defaultdict(list)
		for e in t['entries']:
			groups[e['group']].append(e)
		for g, es in groups.items():
			prev = -1
			for e in es:
				v = parse_int(e['type'])
				if v is None:
					continue
				n += 1
				# tuple-variant / unit-variant lists of the enum macros are not TLV tables
				if v <= prev and t['macro'] not in ('impl_writeable_msg',) and not re.match(r'^[A-Z]', e['field'] or 'x'):
					out.append(Result(rule, False, 'order:%s:%d:%s' % (t['rel'], t['line'], e['type']), '%s:%d %s(%s): TLV type %s does not increase (previous %s)' % (t['rel'], t['line'], t['macro'], t['first_arg'][:40], v, prev), 1, where='%s:%d' % (t['rel'], e['line'])))
				prev = v
	if not out:
		out.append(Result(rule, True, 'ok:symmetric-order', '%d TLV cells in macro-generated (symmetric) codecs have strictly increasing type numbers' % n, n))
	return out
