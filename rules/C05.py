"""C05 - revoked state is never used and state is never revoked early (structural part)."""
from engine import *
import linforms
import provenance
import guards
import arith
import errprop
import writes
import mutations

CH = 'lightning::ln::channel::'
FC = CH + 'FundedChannel::'
CC = CH + 'ChannelContext::'
MON = 'lightning::chain::channelmonitor::ChannelMonitorImpl::'

EXPLANATION = ('Static who-may-call / who-may-write censuses and guarded-act path rules over the type-checked MIR of '
	'lightning::ln::channel, chain::channelmonitor, chain::package and sign: the revocation secret is released only by '
	'get_last_revoke_and_ack for the commitment before the current one; the holder commitment number advances only behind a '
	'validated commitment_signed; a received secret is stored only after it was compared with the announced commitment point, '
	'the channel is awaiting a revoke, and the signer validated it; a new counterparty commitment is only built when no '
	'revocation is outstanding; holder-commitment signing is reachable only from the on-chain claim packages; the monitor '
	'refuses off-chain holder-commitment updates after force-close. Also: no_further_updates_allowed is evaluated as a boolean function over all inputs (true whenever one of the three lock-down flags is set); the flag tests of channel_ready are evaluated for every reachable AwaitingChannelReady flag word (a repeated channel_ready never rotates the commitment points). Decides these structural necessary conditions on every '
	'path of the analysed functions, not the behaviour as a whole.')
ASSUMPTIONS = ['external signer implementations honour the ChannelSigner contract', 'calls through dyn/generic receivers are attributed to the trait item',
	'code under cfg(test)/fuzzing/unsafe_revoked_tx_signing is out of scope (not in the analysed build)']

def r05a(F):
	out = P1_who_may_call(F, '05.a', ['lightning::sign::ChannelSigner::release_commitment_secret'], [FC + 'get_last_revoke_and_ack'], floor=1,
		note='the per-commitment secret may only be released when building revoke_and_ack')
	# index argument = next_transaction_number + 2  (the commitment before the current one)
	fu = F.func(FC + 'get_last_revoke_and_ack')
	ex = Expr(fu)
	n = 0
	for b in sites_call(fu, ['ChannelSigner::release_commitment_secret']):
		ci = fu.blocks[b]['t'][2]
		n += 1
		idx = ex.of_operand(ci['args'][1])
		terms, k = linear(idx)
		ok = k == 2 and len(terms) == 1 and list(terms.values()) == [1] and 'next_transaction_number' in list(terms)[0]
		out.append(Result('05.a', ok, ('ok:' if ok else 'shape:') + 'release_index', 'release_commitment_secret index = %s (expected holder next_transaction_number + 2)' % expr_str(idx), 1,
			where=F.where(fu.name, fu.line_of(b))))
	if n == 0:
		out.append(Result('05.a', False, 'anchor:release-site', 'no release_commitment_secret call in get_last_revoke_and_ack'))
	return out

def r05b(F):
	out = P1_who_may_call(F, '05.b', [CH + 'HolderCommitmentPoint::advance'],
		[FC + 'commitment_signed_update_monitor', CH + 'InitialRemoteCommitmentReceiver::initial_commitment_signed'], floor=2)
	out += P1_who_may_call(F, '05.b', [FC + 'commitment_signed_update_monitor'], [FC + 'commitment_signed', FC + 'commitment_signed_batch'], floor=2)
	out += guarded_by_call(F, '05.b', FC + 'commitment_signed', {'calls': ['FundedChannel::commitment_signed_update_monitor']},
		['ChannelContext::validate_commitment_signed'], 'result')
	out += guarded_by_call(F, '05.b', FC + 'commitment_signed_batch', {'calls': ['FundedChannel::commitment_signed_update_monitor']},
		['ChannelContext::validate_commitment_signed'], 'result', mode='fail-blocks')
	out += guarded_by_call(F, '05.b', CH + 'InitialRemoteCommitmentReceiver::initial_commitment_signed', {'calls': ['HolderCommitmentPoint::advance']},
		['ChannelSigner::validate_holder_commitment'], 'result')
	# validate_commitment_signed returns Ok only after the signer validated the commitment and the signature verified
	fu = F.func(CC + 'validate_commitment_signed')
	oks = set(ok_return_blocks(fu))
	out += guarded_by_call(F, '05.b', CC + 'validate_commitment_signed', oks, ['ChannelSigner::validate_holder_commitment'], 'result')
	out += guarded_by_call(F, '05.b', CC + 'validate_commitment_signed', oks, ['verify_ecdsa'], 'result', min_decisions=2)
	return out

def r05c(F):
	out = P3_field_census(F, '05.c', 'HolderCommitmentPoint.next_transaction_number', [], floor=0)
	out = [r for r in out if not (r.key == 'floor')]
	out += P2_construct_census(F, '05.c', 'lightning::ln::channel::HolderCommitmentPoint', 'HolderCommitmentPoint',
		[CH + 'HolderCommitmentPoint::new', CH + 'HolderCommitmentPoint::advance', '<lightning::ln::channel::FundedChannel as lightning::util::ser::ReadableArgs>::read'], floor=3)
	# advance: new number = old - 1 ; new: INITIAL_COMMITMENT_NUMBER
	for fn, want in ((CH + 'HolderCommitmentPoint::advance', 'dec'), (CH + 'HolderCommitmentPoint::new', 'init')):
		fu = F.func(fn)
		ex = Expr(fu)
		sites = sites_construct(fu, 'HolderCommitmentPoint', 'HolderCommitmentPoint')
		for b, s in sites:
			rv = fu.blocks[b]['s'][s][2]
			e = ex.of_operand(rv[4][rv[5].index('next_transaction_number')])
			terms, k = linear(e)
			if want == 'dec':
				ok = k == -1 and list(terms.values()) == [1] and 'next_transaction_number' in list(terms)[0]
			else:
				ok = (not terms) and k == F.const('lightning::ln::channel::INITIAL_COMMITMENT_NUMBER')
			out.append(Result('05.c', ok, ('ok:' if ok else 'shape:') + 'holder_number@' + fn.rsplit('::', 1)[-1],
				'%s sets next_transaction_number = %s' % (fn.rsplit('::', 1)[-1], expr_str(e)), 1, where=F.where(fu.name, fu.line_of(b))))
		if not sites:
			out.append(Result('05.c', False, 'anchor:cons@' + fn, 'no HolderCommitmentPoint construction in %s' % fn))
	out += P3_field_census(F, '05.c', 'ChannelContext.counterparty_next_commitment_transaction_number',
		[FC + 'revoke_and_ack', CH + 'InitialRemoteCommitmentReceiver::initial_commitment_signed'], floor=2)
	# both writes are "-= 1"
	for fn in (FC + 'revoke_and_ack', CH + 'InitialRemoteCommitmentReceiver::initial_commitment_signed'):
		fu = F.func(fn)
		ex = Expr(fu)
		ws = sites_field_write(fu, 'counterparty_next_commitment_transaction_number')
		for b, s in ws:
			st = fu.blocks[b]['s'][s]
			e = ex.of_rvalue(st[2])
			terms, k = linear(e)
			ok = k == -1 and list(terms.values()) == [1] and 'counterparty_next_commitment_transaction_number' in list(terms)[0]
			out.append(Result('05.c', ok, ('ok:' if ok else 'shape:') + 'cp_number@' + fn.rsplit('::', 1)[-1],
				'%s: counterparty_next_commitment_transaction_number = %s (expected old - 1)' % (fn.rsplit('::', 1)[-1], expr_str(e)), 1, where=F.where(fu.name, st[0])))
		if not ws:
			out.append(Result('05.c', False, 'anchor:write@' + fn, 'no write of counterparty_next_commitment_transaction_number in %s' % fn))
	# ChannelContext struct literals (which initialise the number) only in the constructors
	out += P2_construct_census(F, '05.c', 'lightning::ln::channel::ChannelContext', 'ChannelContext',
		[CC + 'new_for_inbound_channel', CC + 'new_for_outbound_channel', '<lightning::ln::channel::FundedChannel as lightning::util::ser::ReadableArgs>::read'], floor=3)
	return out

def r05d(F):
	fn = FC + 'revoke_and_ack'
	fu = F.func(fn)
	ex = Expr(fu)
	acts = act_blocks(fu, calls=['CounterpartyCommitmentSecrets::provide_secret'],
		constructs=[('ChannelMonitorUpdateStep', 'CommitmentSecret')],
		field_writes=['counterparty_next_commitment_transaction_number'])
	out = []
	if len(acts) < 3:
		out.append(Result('05.d', False, 'anchor:acts', 'revoke_and_ack: expected the three store sites (provide_secret, CommitmentSecret step, number decrement), found %d' % len(acts)))
		return out
	# (i) secret -> point comparison
	cmp_blocks = []
	for b, ci in fu.calls():
		f = norm(ci.get('t') or ci.get('f') or '')
		if f.endswith('PartialEq::ne') or f.endswith('PartialEq::eq'):
			lv = expr_leaves(ex.of_operand(ci['args'][0]))
			expr_leaves(ex.of_operand(ci['args'][1]), lv)
			if any(c.endswith('PublicKey::from_secret_key') for c in lv['calls']) and 'counterparty_current_commitment_point' in lv['fields']:
				cmp_blocks.append((b, f.endswith('::ne')))
	if not cmp_blocks:
		out.append(Result('05.d', False, 'guard:secret-vs-point', 'revoke_and_ack no longer compares PublicKey::from_secret_key(secret) with counterparty_current_commitment_point', where=F.where(fn)))
	else:
		seeds = [call_result_seed(fu, b, 'bool', neg) for b, neg in cmp_blocks]
		ds, _ = decisions_on(fu, [s for s in seeds if s])
		# exemption: the point is None (channels serialized before the point was stored)
		pd = place_decisions(fu, lambda pl: place_fields(pl)[-1:] == ['counterparty_current_commitment_point'], 'option')
		exempt = [e for d in pd for e in d.false_edges]
		out += P4_guarded(F, '05.d', fu, acts, ds, True, 'secret matches counterparty_current_commitment_point', exempt_edges=exempt)
		out += P4_fail_blocks(F, '05.d', fu, acts, ds, True, 'secret matches counterparty_current_commitment_point')
	# (ii) awaiting remote revoke
	out += guarded_by_call(F, '05.d', fn, acts, ['is_awaiting_remote_revoke'], 'bool', True)
	# (iii) signer validation, (iv) provide_secret Ok (for the two later stores)
	out += guarded_by_call(F, '05.d', fn, acts, ['ChannelSigner::validate_counterparty_revocation'], 'result', True)
	later = act_blocks(fu, constructs=[('ChannelMonitorUpdateStep', 'CommitmentSecret')], field_writes=['counterparty_next_commitment_transaction_number'])
	out += guarded_by_call(F, '05.d', fn, later, ['CounterpartyCommitmentSecrets::provide_secret'], 'result', True)
	# index operands = counterparty_next_commitment_transaction_number + 1 in all three uses
	idx_exprs = []
	for b in sites_call(fu, ['ChannelSigner::validate_counterparty_revocation']):
		idx_exprs.append(('validate_counterparty_revocation', ex.of_operand(fu.blocks[b]['t'][2]['args'][1]), b))
	for b in sites_call(fu, ['CounterpartyCommitmentSecrets::provide_secret']):
		idx_exprs.append(('provide_secret', ex.of_operand(fu.blocks[b]['t'][2]['args'][1]), b))
	for b, s in sites_construct(fu, 'ChannelMonitorUpdateStep', 'CommitmentSecret'):
		rv = fu.blocks[b]['s'][s][2]
		idx_exprs.append(('CommitmentSecret.idx', ex.of_operand(rv[4][rv[5].index('idx')]), b))
	for nm, e, b in idx_exprs:
		terms, k = linear(e)
		ok = k == 1 and list(terms.values()) == [1] and 'counterparty_next_commitment_transaction_number' in list(terms)[0]
		out.append(Result('05.d', ok, ('ok:' if ok else 'shape:') + 'idx:' + nm, '%s index = %s (expected counterparty_next_commitment_transaction_number + 1)' % (nm, expr_str(e)), 1, where=F.where(fn, fu.line_of(b))))
	if len(idx_exprs) < 3:
		out.append(Result('05.d', False, 'anchor:idx', 'expected 3 index uses, found %d' % len(idx_exprs)))
	# the monitor side: CommitmentSecret step reaches provide_secret, whose Err is propagated
	mfu = F.func(MON + 'provide_secret')
	oks = set(ok_return_blocks(mfu))
	out += guarded_by_call(F, '05.d', MON + 'provide_secret', oks, ['CounterpartyCommitmentSecrets::provide_secret'], 'result', True)
	return out

def r05e(F):
	out = P1_who_may_call(F, '05.e', [FC + 'build_commitment_no_status_check'],
		[FC + 'commitment_signed_update_monitor', FC + 'revoke_and_ack', FC + 'free_holding_cell_htlcs', FC + 'get_update_fulfill_htlc_and_commit', FC + 'send_htlc_and_commit'], floor=7)
	out += P1_who_may_call(F, '05.e', ['lightning::sign::ecdsa::EcdsaChannelSigner::sign_counterparty_commitment'],
		[FC + 'send_commitment_no_state_update_for_funding', CC + 'get_funding_signed_msg', CC + 'get_initial_counterparty_commitment_signatures', CH + 'OutboundV1Channel::get_funding_created_msg'], floor=4)
	out += P1_who_may_call(F, '05.e', [FC + 'send_commitment_no_state_update_for_funding'], [FC + 'send_commitment_no_state_update'], floor=1)
	out += P1_who_may_call(F, '05.e', [FC + 'send_commitment_no_state_update'], [FC + 'get_last_commitment_update_for_send'], floor=1)
	out += P1_who_may_call(F, '05.e', [FC + 'get_last_commitment_update_for_send'], [FC + 'monitor_updating_restored', FC + 'channel_reestablish', FC + 'signer_maybe_unblocked'], floor=3)
	# commitment_signed_update_monitor: both build sites on the false edge of is_awaiting_remote_revoke... the
	# function checks `can_generate_new_commitment`-style state before; decided by P4 on the flag test
	fn = FC + 'commitment_signed_update_monitor'
	out += guarded_by_call(F, '05.e', fn, {'calls': ['FundedChannel::build_commitment_no_status_check']}, ['is_awaiting_remote_revoke'], 'bool', False)
	# free_holding_cell_htlcs only from maybe_free_holding_cell_htlcs behind can_generate_new_commitment()
	out += P1_who_may_call(F, '05.e', [FC + 'free_holding_cell_htlcs'], [FC + 'maybe_free_holding_cell_htlcs'], floor=1)
	out += guarded_by_call(F, '05.e', FC + 'maybe_free_holding_cell_htlcs', {'calls': ['FundedChannel::free_holding_cell_htlcs']}, ['can_generate_new_commitment'], 'bool', True)
	# build_commitment_no_status_check sets AwaitingRemoteRevoke on every returning path
	fu = F.func(FC + 'build_commitment_no_status_check')
	setb = set(sites_call(fu, ['set_awaiting_remote_revoke']))
	out += P5_must_pass(F, '05.e', fu, [0], fu.return_blocks(), setb, 'set_awaiting_remote_revoke()')
	# revoke_and_ack: the build site is dominated by clear_awaiting_remote_revoke
	fu = F.func(FC + 'revoke_and_ack')
	clr = set(sites_call(fu, ['clear_awaiting_remote_revoke']))
	bld = sites_call(fu, ['FundedChannel::build_commitment_no_status_check'])
	out += P5_must_pass(F, '05.e', fu, [0], bld, clr, 'clear_awaiting_remote_revoke() before building a new commitment')
	# and no re-set in between
	sets = set(sites_call(fu, ['set_awaiting_remote_revoke']))
	if sets:
		out.append(Result('05.e', False, 'reset:revoke_and_ack', 'revoke_and_ack itself sets AwaitingRemoteRevoke', len(sets), where=F.where(fu.name, fu.line_of(sorted(sets)[0]))))
	# can_generate_new_commitment implies the flag is clear: it returns false whenever AwaitingRemoteRevoke is set
	# send_htlc / get_update_fulfill_htlc: the commit variants only build when the inner call reported "not blocked"
	fu = F.func(FC + 'send_htlc_and_commit')
	out += guarded_by_call(F, '05.e', FC + 'send_htlc_and_commit', {'calls': ['FundedChannel::build_commitment_no_status_check']}, ['FundedChannel::send_htlc'], 'result', True)
	return out

def r05f(F):
	out = P1_who_may_call(F, '05.f', ['lightning::sign::ecdsa::EcdsaChannelSigner::sign_holder_commitment'],
		['lightning::chain::package::HolderFundingOutput::get_maybe_signed_commitment_tx'], floor=1,
		note='a holder commitment may only be signed when the on-chain handler finalises a HolderFundingOutput package')
	out += P1_who_may_call(F, '05.f', ['lightning::sign::ecdsa::EcdsaChannelSigner::sign_holder_htlc_transaction'],
		['lightning::chain::package::HolderHTLCOutput::get_maybe_signed_htlc_tx', 'lightning::events::bump_transaction::BumpTransactionEventHandler::handle_htlc_resolution'], floor=2)
	out += P1_who_may_call(F, '05.f', ['lightning::chain::package::HolderFundingOutput::get_maybe_signed_commitment_tx'],
		['lightning::chain::package::PackageSolvingData::get_maybe_finalized_tx', 'lightning::chain::onchaintx::OnchainTxHandler::generate_claim'], floor=2)
	out += P1_who_may_call(F, '05.f', ['lightning::chain::package::HolderHTLCOutput::get_maybe_signed_htlc_tx'],
		['lightning::chain::package::PackageSolvingData::get_maybe_finalized_tx'], floor=1)
	out += P1_who_may_call(F, '05.f', ['lightning::chain::package::PackageSolvingData::get_maybe_finalized_tx'],
		['lightning::chain::package::PackageTemplate::maybe_finalize_untractable_package'], floor=1)
	out += P1_who_may_call(F, '05.f', ['lightning::chain::package::PackageTemplate::maybe_finalize_untractable_package'],
		['lightning::chain::onchaintx::OnchainTxHandler::generate_claim', 'lightning::chain::onchaintx::OnchainTxHandler::get_maybe_signed_holder_tx',
		 'lightning::chain::onchaintx::OnchainTxHandler::get_fully_signed_htlc_tx'], floor=1)
	return out

def r05g(F):
	fn = MON + 'update_monitor'
	fu = F.func(fn)
	out = []
	# lockdown_from_offchain is set only in update_monitor's ChannelForceClosed arm
	out += P3_field_census(F, '05.g', 'ChannelMonitorImpl.lockdown_from_offchain', [MON + 'update_monitor'], floor=1)
	out += P3_field_census(F, '05.g', 'ChannelMonitorImpl.holder_tx_signed',
		[MON + 'queue_latest_holder_commitment_txn_for_broadcast', MON + 'generate_claimable_outpoints_and_watch_outputs',
		 MON + 'check_spend_holder_transaction', MON + 'get_latest_holder_commitment_txn', MON + 'maybe_get_latest_holder_commitment_txn', MON + 'cancel_prev_commitment_claims'], floor=1)
	# writes are `= true`
	ex = Expr(fu)
	for b, s in sites_field_write(fu, 'lockdown_from_offchain'):
		st = fu.blocks[b]['s'][s]
		e = ex.of_rvalue(st[2])
		ok = e[0] == 'const' and e[1] == 1
		out.append(Result('05.g', ok, ('ok:' if ok else 'shape:') + 'lockdown-value', 'lockdown_from_offchain = %s (expected true)' % expr_str(e), 1, where=F.where(fn, st[0])))
	# holder_tx_signed is only ever SET (the constant true), never computed from the channel type or cleared: once the holder commitment was signed /
	# handed to the broadcaster, no_further_updates_allowed() must hold for every channel type, or a later update gets the handed-out commitment revoked
	nw = 0
	for wfn in (MON + 'queue_latest_holder_commitment_txn_for_broadcast', MON + 'generate_claimable_outpoints_and_watch_outputs',
			MON + 'check_spend_holder_transaction', MON + 'get_latest_holder_commitment_txn', MON + 'maybe_get_latest_holder_commitment_txn', MON + 'cancel_prev_commitment_claims'):
		if not F.has_fn(wfn):
			continue
		for nm in F.family(wfn):
			wfu = F.func(nm)
			wex = Expr(wfu)
			for b, si in sites_field_write(wfu, 'holder_tx_signed'):
				st = wfu.blocks[b]['s'][si]
				e = wex.of_rvalue(st[2])
				okw = e[0] == 'const' and e[1] == 1
				nw += 1
				out.append(Result('05.g', okw, ('ok:' if okw else 'shape:') + 'holder-tx-signed-value@%s' % wfn.rsplit('::', 1)[-1], '%s sets holder_tx_signed = %s (expected the constant true for every channel type)' % (wfn.rsplit('::', 1)[-1], expr_str(e)[:120]), 1, where=F.where(nm, st[0])))
	if nw < 1:
		out.append(Result('05.g', False, 'floor:holder-tx-signed-writes', 'no write of holder_tx_signed found in the monitor\'s broadcast routines'))
	# ... and generate_claimable_outpoints_and_watch_outputs (the funnel of every monitor-initiated broadcast) sets it on every path to its return
	gfu = F.func(MON + 'generate_claimable_outpoints_and_watch_outputs')
	gw = {b for b, si in sites_field_write(gfu, 'holder_tx_signed')}
	rets = [bi for bi in range(len(gfu.blocks)) if gfu.term(bi)[1] == 'ret']
	out += P5_must_pass(F, '05.g', gfu, [0], rets, gw, 'holder_tx_signed = true on every path of generate_claimable_outpoints_and_watch_outputs', key='holder-tx-signed-unconditional')
	# lockdown is set before the holder commitment is queued for broadcast
	lw = {b for b, s in sites_field_write(fu, 'lockdown_from_offchain')}
	q = sites_call(fu, ['queue_latest_holder_commitment_txn_for_broadcast', 'maybe_broadcast_latest_holder_commitment_txn'])
	out += P5_must_pass(F, '05.g', fu, [0], q, lw, 'lockdown_from_offchain = true before queueing the holder commitment for broadcast')
	# applying a new holder commitment is refused after lockdown
	acts = set(sites_call(fu, ['ChannelMonitorImpl::provide_latest_holder_commitment_tx', 'ChannelMonitorImpl::update_holder_commitment_data']))
	lk = []
	for bi, si, s in fu.stmts():
		rv = s[2]
		if rv[0] == 'use' and rv[1][0] in ('c', 'm') and place_fields(rv[1][1])[-1:] == ['lockdown_from_offchain'] and len(s[1]) == 1:
			lk.append((s[1][0], 'bool', False))
	ds, _ = decisions_on(fu, lk)
	out += P4_guarded(F, '05.g', fu, acts, ds, False, 'lockdown_from_offchain is false')
	# update ids are strictly sequential (or the closed-channel sentinel)
	cmps = find_cmp(fu, need_fields=['latest_update_id', 'update_id'], ops=('Ne', 'Eq'))
	ok = False
	for c in cmps:
		nf = cmp_normal(c[3], c[4], c[5])
		if abs(nf[2]) == 1 and len(nf[0]) == 2:
			ok = True
	out.append(Result('05.g', ok, ('ok:' if ok else 'guard:') + 'sequential-update-id', 'update_monitor compares latest_update_id + 1 with the update id: %s' % [cmp_str(cmp_normal(c[3], c[4], c[5])) for c in cmps][:3], len(cmps), where=F.where(fn)))
	# no_further_updates_allowed = disjunction of the three flags
	nf = F.func(MON + 'no_further_updates_allowed')
	read = set()
	for bi, si, s in nf.stmts():
		rv = s[2]
		if rv[0] == 'use' and rv[1][0] in ('c', 'm'):
			fl = place_fields(rv[1][1])
			if fl:
				read.add(fl[-1])
	want = {'funding_spend_seen', 'lockdown_from_offchain', 'holder_tx_signed'}
	ok = want <= read
	out.append(Result('05.g', ok, ('ok:' if ok else 'shape:') + 'no_further_updates_allowed', 'no_further_updates_allowed reads %s (needs %s)' % (sorted(read), sorted(want)), len(read), where=F.where(nf.name)))
	# ... and it IS a disjunction: whenever one of the three flags is set the result is true, whatever else the function looks at
	try:
		rows = path_table(nf)
	except AnchorMissing as e:
		rows = None
	if rows is None:
		out.append(Result('05.g', False, 'anchor:no_further_updates_allowed-table', 'no_further_updates_allowed is no longer a small boolean function', where=F.where(nf.name)))
	else:
		import itertools
		def leaves(e, acc):
			while e[0] in ('ref', 'deref', 'cast'):
				e = e[1]
			if e[0] == 'bin' and e[1] in ('BitOr', 'BitAnd', 'Eq', 'Ne', 'BitXor'):
				leaves(e[2], acc); leaves(e[3], acc)
			elif e[0] == 'un':
				leaves(e[2], acc)
			elif e[0] != 'const':
				acc.add(leaf_key(e))
			return acc
		def ev(e, asg):
			while e[0] in ('ref', 'deref', 'cast'):
				e = e[1]
			if e[0] == 'const':
				return bool(e[1])
			if e[0] == 'un':
				return not ev(e[2], asg)
			if e[0] == 'bin' and e[1] in ('BitOr', 'BitAnd', 'Eq', 'Ne', 'BitXor'):
				a, b = ev(e[2], asg), ev(e[3], asg)
				return {'BitOr': a or b, 'BitAnd': a and b, 'Eq': a == b, 'Ne': a != b, 'BitXor': a != b}[e[1]]
			return bool(asg.get(leaf_key(e)))
		keys = set()
		for conds, ret in rows:
			keys |= set(conds)
			if ret is not None:
				leaves(ret, keys)
		keys = sorted(keys)
		def flag_of(k):
			for w in want:
				if k.endswith('.' + w) or k == w:
					return w
			return None
		bad = []
		if len(keys) <= 10:
			for vals in itertools.product((0, 1), repeat=len(keys)):
				asg = dict(zip(keys, vals))
				if not any(asg[k] for k in keys if flag_of(k)):
					continue
				res = None
				for conds, ret in rows:
					okr = True
					for k, c in conds.items():
						v = asg.get(k)
						if isinstance(c, tuple):
							if v in c[1]:
								okr = False
						elif c != v:
							okr = False
					if okr:
						res = None if ret is None else ev(ret, asg)
						break
				if res is not True:
					bad.append({k.rsplit('.', 1)[-1]: v for k, v in asg.items()})
		else:
			bad.append('too many inputs: %s' % keys)
		okd = not bad and all(any(flag_of(k) == w for k in keys) for w in want)
		out.append(Result('05.g', okd, ('ok:' if okd else 'weakened:') + 'no_further_updates_allowed-is-disjunction', 'no_further_updates_allowed is true whenever funding_spend_seen, lockdown_from_offchain or holder_tx_signed is set%s' % ('' if okd else ' - not for %s: once the holder commitment has been signed for broadcast the monitor must refuse every later commitment update, otherwise the channel goes on to revoke a state that may be on chain' % bad[:2]), len(rows), where=F.where(nf.name)))
	return out

def r05i(F):
	# channel_reestablish: get_last_revoke_and_ack only when no monitor update is in progress
	fn = FC + 'channel_reestablish'
	out = guarded_by_call(F, '05.i', fn, {'calls': ['FundedChannel::get_last_revoke_and_ack']}, ['is_monitor_update_in_progress'], 'bool', False)
	out += P1_who_may_call(F, '05.i', [FC + 'get_last_revoke_and_ack'], [FC + 'monitor_updating_restored', FC + 'channel_reestablish', FC + 'signer_maybe_unblocked'], floor=3)
	return out

def r05k(F):
	"""a holder commitment is accepted (and the previous one later revoked) only when it is fully signed"""
	out = []
	fn = CC + 'validate_commitment_signed'
	fu = F.func(fn)
	oks = set(ok_return_blocks(fu))
	ex = Expr(fu)
	ver = sites_call(fu, ['verify_ecdsa'])
	commit_v, htlc_v = [], []
	for b in ver:
		ks = ' '.join(leaf_key(ex.of_operand(a)) for a in fu.blocks[b]['t'][2]['args'])
		if 'counterparty_funding_pubkey' in ks:
			commit_v.append(b)
		elif 'countersignatory_htlc_key' in ks:
			htlc_v.append(b)
	if len(commit_v) != 1 or len(htlc_v) != 1:
		return [Result('05.k', False, 'anchor:verify_ecdsa', 'validate_commitment_signed: expected one commitment-signature and one HTLC-signature verification, found %d/%d' % (len(commit_v), len(htlc_v)), len(ver), where=F.where(fn))]
	ds = call_decisions(fu, commit_v, 'result')
	out += P4_guarded(F, '05.k', fu, oks, ds, True, 'commitment signature valid', key='commitment-sig')
	out += P4_fail_blocks(F, '05.k', fu, oks, ds, True, 'commitment signature valid', key='commitment-sig-fail')
	# exactly one HTLC signature per non-dust HTLC: the loop zips the two lists and would silently stop at the shorter one
	gs = guards_in(F, fn, False)
	cnt = [g for g in gs if len(g.nf[0]) == 2 and any('htlc_signatures' in v and 'len(' in v for v in g.nf[0]) and any('nondust_htlcs' in v and 'len(' in v for v in g.nf[0])]
	if len(cnt) != 1:
		out.append(Result('05.k', False, 'guard:htlc-sig-count', 'validate_commitment_signed no longer compares the number of HTLC signatures with the number of non-dust HTLCs (comparisons: %s)' % [g.text() for g in gs][:8], len(gs), where=F.where(fn)))
	else:
		g = cnt[0]
		ok = g.nf[1] in ('Ne', 'Eq') and g.nf[2] == 0 and sorted(g.nf[0].values()) == [-1, 1]
		out.append(Result('05.k', ok, ('ok:' if ok else 'shape:') + 'htlc-sig-count', 'HTLC signature count test is `%s` (must be an exact equality: the verification loop zips signatures with HTLCs, so a shorter list would leave HTLC transactions unsigned)' % g.text(), 1, where=F.where(fn, g.line)))
		if ok:
			out += P4_guarded(F, '05.k', fu, oks, g.decisions, g.nf[1] == 'Eq', 'signature count == non-dust HTLC count', key='htlc-sig-count-guard')
	# every zipped pair is verified before the next one / before leaving the loop normally
	heads = loop_heads(fu)
	hb = htlc_v[0]
	loop_hs = [h for h in heads if hb in fu.reach([h]) and h in fu.reach([hb])]
	if not loop_hs:
		out.append(Result('05.k', False, 'shape:htlc-sig-loop', 'the HTLC signature verification is not inside a loop over the HTLCs', 1, where=F.where(fn, fu.line_of(hb))))
	else:
		h = loop_hs[0]
		dn = call_decisions(fu, [h], 'option')
		some = [e[1] for d in dn for e in d.true_edges]
		p = fu.path(some, [h], removed_blocks={hb})
		out.append(Result('05.k', p is None and bool(some), ('ok:' if p is None and some else 'bypass:') + 'each-htlc-verified', 'every (HTLC, signature) pair is verified before the loop moves on' if p is None else 'an iteration can skip verify_ecdsa (lines %s)' % fu.path_lines(p), 1, where=F.where(fn, fu.line_of(hb))))
		d2 = call_decisions(fu, [hb], 'result')
		out += P4_fail_blocks(F, '05.k', fu, oks, d2, True, 'HTLC signature valid', key='htlc-sig-fail')
	out += guarded_by_call(F, '05.k', fn, oks, ['ChannelSigner::validate_holder_commitment'], 'result', True)
	# a counterparty fee update in this commitment must be affordable (exempt: no remote fee update pending)
	vf = sites_call(fu, [CC + 'validate_update_fee'])
	if not vf:
		out.append(Result('05.k', False, 'guard:validate_update_fee', 'validate_commitment_signed no longer validates a pending remote fee update', 0, where=F.where(fn)))
	else:
		out += P4_fail_blocks(F, '05.k', fu, oks, call_decisions(fu, vf, 'result'), True, 'remote update_fee affordable', key='remote-fee-fail')
	return out

def r05l(F):
	"""channel_ready: the peer's commitment points are rotated once. For every value of the AwaitingChannelReady flags in which the peer's
	channel_ready was already received (with or without WAITING_FOR_BATCH), the handler takes the retransmission path (point compared, nothing
	stored); decided by evaluating the handler's flag tests over the finite flag domain"""
	import flagsim
	out = []
	fn = FC + 'channel_ready'
	fu = F.func(fn)
	SF = 'lightning::ln::channel::state_flags::'
	OUR, THEIR, WFB = F.const(SF + 'OUR_CHANNEL_READY'), F.const(SF + 'THEIR_CHANNEL_READY'), F.const(SF + 'WAITING_FOR_BATCH')
	vs = enum_variants(F, CH + 'ChannelState')
	sws = [x for x in variant_switch_on(fu, r'channel_state$', vs) if 'AwaitingChannelReady' in x[1]]
	rot = {b for b, si in sites_field_write(fu, 'counterparty_next_commitment_point')} | {b for b, si in sites_field_write(fu, 'counterparty_current_commitment_point')}
	rot &= fu.reach([0])
	if len(sws) != 1 or not rot:
		return [Result('05.l', False, 'anchor:channel_ready-shape', 'channel_ready: expected one match on the channel state with an AwaitingChannelReady arm and the commitment point stores (found %d / %d)' % (len(sws), len(rot)), where=F.where(fn))]
	sb, m, other = sws[0]
	start = m['AwaitingChannelReady']
	def is_input(e):
		return e[0] == 'field' and e[1][0] == 'downcast' and e[1][2] == 'AwaitingChannelReady'
	def stop(b):
		return 'rotates' if b in rot else None
	domain = [(0, 'none'), (OUR, 'OUR'), (WFB, 'WAITING_FOR_BATCH'), (THEIR, 'THEIR'), (THEIR | WFB, 'THEIR|WAITING_FOR_BATCH')]
	n = 0
	for val, label in domain:
		res = flagsim.simulate(F, fu, start, val, is_input, stop)
		n += 1
		if '<explosion>' in res:
			out.append(Result('05.l', False, 'anchor:simulation@' + label, 'channel_ready: flag simulation did not terminate for %s' % label, where=F.where(fn)))
			continue
		if val & THEIR:
			ok = 'rotates' not in res
			out.append(Result('05.l', ok, ('ok:' if ok else 'rotated-twice:') + 'repeated-channel_ready@' + label, 'channel_ready with flags {%s}: a repeated channel_ready %s' % (label, 'only compares the point and returns' if ok else 'reaches the stores of counterparty_current/next_commitment_point again: the point announced for the first commitment is overwritten and a later revoke_and_ack is checked against the wrong point'), 1, where=F.where(fn)))
		else:
			ok = 'rotates' in res
			out.append(Result('05.l', ok, ('ok:' if ok else 'dead:') + 'first-channel_ready@' + label, 'channel_ready with flags {%s}: the first channel_ready %s' % (label, 'stores the peer\'s next commitment point' if ok else 'no longer reaches the point stores'), 1, where=F.where(fn)))
	# the ChannelReady arm is a retransmission as well
	if 'ChannelReady' in m:
		res = flagsim.simulate(F, fu, m['ChannelReady'], 0, is_input, stop)
		ok = 'rotates' not in res
		out.append(Result('05.l', ok, ('ok:' if ok else 'rotated-twice:') + 'repeated-channel_ready@ChannelReady', 'channel_ready in state ChannelReady never reaches the point stores', 1, where=F.where(fn)))
	return out

def r05m(F):
	"""the revocation secret is released only once the newer holder commitment is durable: (i) the signer-pending revoke_and_ack flag - which lets
	signer_maybe_unblocked release the secret - is written only by the generators / resend stanzas that run after the monitor update completed
	(same census as 09.d); (ii) on restart a channel counts as "all monitor updates completed" only when EVERY in-flight update reached the
	monitor (same rule as 10.c) - otherwise the missing update carrying the newer commitment is replayed before anything is released"""
	import C09, C10
	out = []
	for r in C09.r09d(F):
		if 'signer_pending_revoke_and_ack' in (r.key + r.msg) or 'get_last_revoke_and_ack' in (r.key + r.msg):
			r.rule = '05.m'
			out.append(r)
	for r in C10.r10c(F):
		r.rule = '05.m'
		out.append(r)
	if len(out) < 5:
		out.append(Result('05.m', False, 'floor:release-after-durable', 'only %d rule instances (expected >= 5)' % len(out), len(out)))
	return out

RULES = [
	('05.m', 'the secret is released only after the newer commitment is durable: signer-pending flag writers; restart replays every in-flight update', r05m),
	('05.l', 'channel_ready rotates the counterparty commitment points exactly once (flag-domain evaluation of the handler)', r05l),
	('05.a', 'release_commitment_secret is reachable only from get_last_revoke_and_ack, with index next_transaction_number + 2', r05a),
	('05.b', 'HolderCommitmentPoint::advance only behind a validated commitment_signed', r05b),
	('05.c', 'commitment numbers are written only as init / minus-one at the frozen sites', r05c),
	('05.d', 'revoke_and_ack stores a secret only past point comparison, awaiting-revoke test, signer validation, provide_secret Ok; index = number + 1', r05d),
	('05.e', 'a new counterparty commitment is built only when no revocation is outstanding; the build sets AwaitingRemoteRevoke', r05e),
	('05.f', 'holder commitment / HTLC signing is reachable only from on-chain claim packages', r05f),
	('05.g', 'monitor: lockdown after force-close, sequential update ids, no holder-commitment update after lockdown', r05g),
	('05.k', 'validate_commitment_signed: commitment signature, exactly one verified HTLC signature per non-dust HTLC, signer validation', r05k),
	('05.i', 'channel_reestablish releases the last revoke_and_ack only when no monitor update is in progress', r05i),
	('05.p', 'same-name field transfer: structs carrying this property\'s quantities are filled from the same-named field or a reviewed alias (rules/provenance.py)', lambda F: provenance.for_property(F, 'C05', '05.p')),
	('05.q', 'no call hands a value named like one parameter of the callee to a different parameter (swapped type-compatible arguments; rules/provenance.py)', lambda F: provenance.swaps_for_property(F, 'C05', '05.q')),
	('05.z', 'named protocol / policy constants in this property\'s files have their reviewed values (rules/provenance.py)', lambda F: provenance.consts_for_property(F, 'C05', '05.z')),
]
RULES.append(('05.t', 'identity comparisons: every reviewed (function, identity type) == / != comparison (HTLCSource, Txid, OutPoint, ChannelId, PaymentHash, PublicKey, ...) is still made - a function does not silently change what it matches by (rules/provenance.py)', lambda F: provenance.ids_for_property(F, 'C05', '05.t')))
RULES.append(('05.R', 'state resets: every reviewed constant write to persistent state (flag = true / false, counter = 0, pending slot = None) of a function is still made (rules/provenance.py)', lambda F: provenance.flags_for_property(F, 'C05', '05.R')))
RULES.append(('05.M', 'collection mutations: every reviewed (function, stored collection, mutator class: add / remove / filter / empty / swap / order) triple is still present - an entry that is no longer removed, inserted or drained on one path (rules/mutations.py)', lambda F: mutations.for_property(F, 'C05', '05.M')))
RULES.append(('05.G', 'guard census: no reviewed call of a workspace function and no reviewed mutation of a stored collection gained a controlling branch condition (an added `&& cond`, early return / continue, more specific match arm in front of an act); counts per call site, name free (rules/guards.py)', lambda F: guards.for_property(F, 'C05', '05.G')))
RULES.append(('05.W', 'field assignments: every reviewed (function, Type.field) direct assignment is still made - state that a path no longer updates, or updates only conditionally (get_or_insert for an overwrite); generalises NN.R (rules/writes.py)', lambda F: writes.for_property(F, 'C05', '05.W')))
RULES.append(('05.X', 'error propagation: once a branch has found a Result of the function\'s own error type to be Err, no path returns Ok(..) or an unrelated value - a failed monitor write is not reported as Completed: the revocation of the old state would be released although the new state is not durable (value-refined walk, rules/errprop.py)', lambda F: errprop.rule(F, '05.X', r'util/persist\.rs$|chain/chainmonitor\.rs$', 3, exceptions={'list_paginated_with_values': 'a key removed between listing and reading is not part of the page (NotFound only; every other error is returned)', 'list': 'a directory entry that vanished between read_dir and the check is skipped / included by design', 'list_paginated_impl': 'same tolerance as list for entries deleted during the scan'})))
RULES.append(('05.N', 'arithmetic census: per reviewed function the set of operation kinds (group: add/sub, mul, div, rem, shift, bit, min, max, div_ceil ...; flavour: plain / checked / saturating / wrapping) keeps its kinds: no reviewed function lost or gained a kind of arithmetic altogether - a rounding direction (`/` for div_ceil), saturating for checked, min for max (rules/arith.py; counts and value arithmetic itself are not judged)', lambda F: arith.for_property(F, 'C05', '05.N')))
RULES.append(('05.K', 'constant census of linear forms: every comparison (normalised to sum >= K over name-free atoms, a comparison and its negation being one form) and every maximal arithmetic expression of a reviewed function keeps its coefficients and its constant - a dropped or added `+ 1` / `- 1`, `<` for `<=` inside a computed bound, a scale factor applied twice or not at all, swapped operands of a comparison (rules/linforms.py; shapes that appear or disappear are not judged, the guard / arithmetic censuses judge those)', lambda F: linforms.for_property(F, 'C05', '05.K')))
