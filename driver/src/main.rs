// Fact extractor for the /verif static-analysis rules.
//
// Runs as RUSTC_WORKSPACE_WRAPPER under `cargo +nightly check`. For every workspace
// crate whose name is listed in VERIF_CRATES it walks the `mir_built` body of every
// fn / assoc fn / closure and writes, into $VERIF_FACTS_DIR/<crate>/ :
//   fns.tsv calls.tsv constructs.tsv fieldacc.tsv consts.tsv impls.tsv adts.tsv
//   cfg.jsonl (one JSON object per function)  cfg.idx (def path -> offset,len)
//   DONE (run id stamp)
// Nothing here evaluates the program: it is a dump of the type-checked program.
#![feature(rustc_private)]
#![allow(clippy::all)]

extern crate rustc_abi;
extern crate rustc_data_structures;
extern crate rustc_driver;
extern crate rustc_hir;
extern crate rustc_index;
extern crate rustc_interface;
extern crate rustc_middle;
extern crate rustc_span;

use rustc_driver::{Callbacks, Compilation};
use rustc_hir::def::DefKind;
use rustc_hir::def_id::{DefId, LocalDefId};
use rustc_interface::interface::Compiler;
use rustc_middle::mir::{
	self, AggregateKind, Body, BorrowKind, Const as MirConst, Local, Operand, Place,
	PlaceElem, Rvalue, StatementKind, TerminatorKind,
};
use rustc_middle::ty::print::{with_no_trimmed_paths, with_no_visible_paths, with_resolve_crate_name};
use rustc_middle::ty::{self, Instance, Ty, TyCtxt, TypingEnv};
use rustc_span::Span;
use std::collections::HashMap;
use std::fmt::Write as _;
use std::io::Write as _;

fn jesc(s: &str, out: &mut String) {
	out.push('"');
	for c in s.chars() {
		match c {
			'"' => out.push_str("\\\""),
			'\\' => out.push_str("\\\\"),
			'\n' => out.push_str("\\n"),
			'\r' => out.push_str("\\r"),
			'\t' => out.push_str("\\t"),
			c if (c as u32) < 0x20 => {
				let _ = write!(out, "\\u{:04x}", c as u32);
			},
			c => out.push(c),
		}
	}
	out.push('"');
}

fn tsv_clean(s: &str) -> String {
	s.replace('\t', " ").replace('\n', " ")
}

struct Cx<'tcx> {
	tcx: TyCtxt<'tcx>,
	path_cache: HashMap<DefId, String>,
}

impl<'tcx> Cx<'tcx> {
	fn path(&mut self, did: DefId) -> String {
		if let Some(s) = self.path_cache.get(&did) {
			return s.clone();
		}
		let tcx = self.tcx;
		let s = with_resolve_crate_name!(with_no_trimmed_paths!(with_no_visible_paths!(
			tcx.def_path_str(did)
		)));
		self.path_cache.insert(did, s.clone());
		s
	}
	fn ty_str(&self, ty: Ty<'tcx>) -> String {
		with_resolve_crate_name!(with_no_trimmed_paths!(with_no_visible_paths!(format!("{}", ty))))
	}
	fn loc(&self, sp: Span) -> (String, usize) {
		let sm = self.tcx.sess.source_map();
		// use the outermost user-written span for macro expansions as well as the raw one
		let lo = sm.lookup_char_pos(sp.lo());
		let f = match &lo.file.name {
			rustc_span::FileName::Real(r) => match r.local_path() {
				Some(p) => p.to_string_lossy().to_string(),
				None => format!("{:?}", r),
			},
			o => format!("{:?}", o),
		};
		(f, lo.line)
	}
	fn line(&self, sp: Span) -> usize {
		let sm = self.tcx.sess.source_map();
		sm.lookup_char_pos(sp.lo()).line
	}
}

struct FnOut {
	json: String,
}

struct BodyWalker<'a, 'tcx> {
	cx: &'a mut Cx<'tcx>,
	body: &'a Body<'tcx>,
	owner: LocalDefId,
	fn_path: String,
	typing_env: TypingEnv<'tcx>,
	calls: &'a mut String,
	constructs: &'a mut String,
	fieldacc: &'a mut String,
	// local -> callee paths where that local is passed as an argument
	arg_use: HashMap<Local, Vec<String>>,
}

impl<'a, 'tcx> BodyWalker<'a, 'tcx> {
	fn resolve_callee(&mut self, func: &Operand<'tcx>) -> Option<(String, String, DefId)> {
		// returns (resolved path, declared path, resolved def id)
		let tcx = self.cx.tcx;
		if let Operand::Constant(c) = func {
			if let ty::FnDef(def_id, args) = *c.const_.ty().kind() {
				let declared = self.cx.path(def_id);
				let args = match tcx.try_normalize_erasing_regions(self.typing_env, ty::Unnormalized::new_wip(args)) {
					Ok(a) => a,
					Err(_) => return Some((declared.clone(), declared, def_id)),
				};
				let resolved = match Instance::try_resolve(tcx, self.typing_env, def_id, args) {
					Ok(Some(inst)) => inst.def_id(),
					_ => def_id,
				};
				let rp = self.cx.path(resolved);
				return Some((rp, declared, resolved));
			}
		}
		None
	}

	fn place_json(&mut self, place: &Place<'tcx>, out: &mut String, acc: Option<&str>, line: usize) {
		// ["_N", proj...]
		let tcx = self.cx.tcx;
		let _ = write!(out, "[{}", place.local.as_u32());
		let mut pty = mir::PlaceTy::from_ty(self.body.local_decls[place.local].ty);
		let n = place.projection.len();
		for (i, elem) in place.projection.iter().enumerate() {
			out.push(',');
			match elem {
				PlaceElem::Deref => out.push_str("\"*\""),
				PlaceElem::Field(fidx, _) => {
					let mut name = format!("{}", fidx.as_u32());
					let mut owner = String::new();
					match pty.ty.kind() {
						ty::Adt(adt, _) => {
							let v = match pty.variant_index {
								Some(vi) => adt.variant(vi),
								None => {
									if adt.is_enum() {
										adt.variant(rustc_abi::VariantIdx::from_u32(0))
									} else {
										adt.non_enum_variant()
									}
								},
							};
							if let Some(f) = v.fields.get(fidx) {
								name = f.name.to_string();
							}
							owner = self.cx.path(adt.did());
							if adt.is_enum() {
								owner.push_str("::");
								owner.push_str(v.name.as_str());
							}
						},
						ty::Closure(..) | ty::Coroutine(..) | ty::CoroutineClosure(..) => {
							owner = "{upvar}".to_string();
						},
						_ => {},
					}
					let mut s = String::new();
					s.push('.');
					s.push_str(&name);
					if !owner.is_empty() {
						s.push('#');
						s.push_str(&owner);
					}
					jesc(&s, out);
					if let Some(kind) = acc {
						if !owner.is_empty() && owner != "{upvar}" {
							// last field in the chain gets the kind, outer ones the kind + 'i'
							let is_last = !place.projection[i + 1..]
								.iter()
								.any(|e| matches!(e, PlaceElem::Field(..)));
							let k = if is_last { kind.to_string() } else { format!("{}i", kind) };
							let _ = writeln!(
								self.fieldacc,
								"{}\t{}.{}\t{}\t{}",
								self.fn_path, owner, name, k, line
							);
						}
					}
				},
				PlaceElem::Index(l) => {
					let _ = write!(out, "\"[_{}]\"", l.as_u32());
				},
				PlaceElem::ConstantIndex { offset, from_end, .. } => {
					let _ = write!(out, "\"[{}{}]\"", if from_end { "-" } else { "" }, offset);
				},
				PlaceElem::Subslice { from, to, from_end } => {
					let _ = write!(out, "\"[{}..{}{}]\"", from, if from_end { "-" } else { "" }, to);
				},
				PlaceElem::Downcast(name, vi) => {
					let nm = match name {
						Some(s) => s.to_string(),
						None => format!("{}", vi.as_u32()),
					};
					jesc(&format!("@{}", nm), out);
				},
				PlaceElem::OpaqueCast(_) => out.push_str("\"~\""),
				PlaceElem::UnwrapUnsafeBinder(_) => out.push_str("\"~u\""),
			}
			pty = pty.projection_ty(tcx, elem);
			let _ = n;
		}
		out.push(']');
	}

	fn const_json(&mut self, c: &mir::ConstOperand<'tcx>, out: &mut String) {
		let tcx = self.cx.tcx;
		let ty = c.const_.ty();
		out.push_str("{\"ty\":");
		jesc(&self.cx.ty_str(ty), out);
		if let ty::FnDef(did, _) = *ty.kind() {
			out.push_str(",\"fn\":");
			let p = self.cx.path(did);
			jesc(&p, out);
		}
		if let ty::Closure(did, _) = *ty.kind() {
			out.push_str(",\"fn\":");
			let p = self.cx.path(did);
			jesc(&p, out);
		}
		if let MirConst::Unevaluated(uv, _) = c.const_ {
			out.push_str(",\"d\":");
			let p = self.cx.path(uv.def);
			jesc(&p, out);
			if uv.promoted.is_some() {
				out.push_str(",\"promoted\":true");
			}
		}
		if ty.is_integral() || ty.is_bool() || ty.is_char() {
			// Unevaluated consts of generic items may fail to evaluate: ignore.
			let is_plain = match c.const_ {
				MirConst::Val(..) => true,
				MirConst::Unevaluated(uv, _) => uv.args.is_empty() && uv.promoted.is_none(),
				// range-pattern bounds and other type-level integer values
				MirConst::Ty(_, ct) => ct.try_to_value().is_some(),
			};
			if is_plain {
				if let Some(si) = c.const_.try_eval_scalar_int(tcx, self.typing_env) {
					let size = si.size();
					let v: String = if ty.is_signed() {
						format!("{}", si.to_int(size))
					} else {
						format!("{}", si.to_uint(size))
					};
					out.push_str(",\"v\":");
					// numbers above 2^53 are kept exact by python's json
					out.push_str(&v);
				}
			}
		} else if let MirConst::Ty(_, ct) = c.const_ {
			// string literals in patterns are type-level values (valtrees)
			if let ty::Ref(_, inner, _) = ty.kind() {
				if inner.is_str() {
					if let Some(v) = ct.try_to_value() {
						if let Some(bytes) = v.try_to_raw_bytes(tcx) {
							if let Ok(s) = std::str::from_utf8(bytes) {
								let t: String = s.chars().take(100).collect();
								out.push_str(",\"s\":");
								jesc(&t, out);
							}
						}
					}
				}
			}
		} else if let MirConst::Val(cv @ mir::ConstValue::Slice { .. }, _) = c.const_ {
			if let ty::Ref(_, inner, _) = ty.kind() {
				if inner.is_str() {
					if let Some(bytes) = cv.try_get_slice_bytes_for_diagnostics(tcx) {
						if let Ok(s) = std::str::from_utf8(bytes) {
							let t: String = s.chars().take(100).collect();
							out.push_str(",\"s\":");
							jesc(&t, out);
						}
					}
				}
			}
		}
		out.push('}');
	}

	fn operand_json(&mut self, op: &Operand<'tcx>, out: &mut String, line: usize) {
		match op {
			Operand::Copy(p) => {
				out.push_str("[\"c\",");
				self.place_json(p, out, Some("r"), line);
				out.push(']');
			},
			Operand::Move(p) => {
				out.push_str("[\"m\",");
				self.place_json(p, out, Some("r"), line);
				out.push(']');
			},
			Operand::Constant(c) => {
				out.push_str("[\"k\",");
				self.const_json(c, out);
				out.push(']');
			},
			_ => out.push_str("[\"rt\"]"),
		}
	}

	fn rvalue_json(&mut self, rv: &Rvalue<'tcx>, out: &mut String, line: usize, dest: &Place<'tcx>) {
		match rv {
			Rvalue::Use(op, _) => {
				out.push_str("[\"use\",");
				self.operand_json(op, out, line);
				out.push(']');
			},
			Rvalue::Repeat(op, _) => {
				out.push_str("[\"repeat\",");
				self.operand_json(op, out, line);
				out.push(']');
			},
			Rvalue::Ref(_, bk, p) => {
				let m = matches!(bk, BorrowKind::Mut { .. });
				let fake = matches!(bk, BorrowKind::Fake(_));
				// record which callee (if any) receives this borrow as an argument
				let mut kind = if m { "bm".to_string() } else { "br".to_string() };
				if fake {
					kind = "bf".to_string();
				}
				if dest.projection.is_empty() {
					if let Some(cs) = self.arg_use.get(&dest.local) {
						if let Some(c) = cs.first() {
							kind.push(':');
							kind.push_str(c);
						}
					}
				}
				let _ = write!(out, "[\"ref\",{},", if m { "true" } else { "false" });
				self.place_json(p, out, Some(&kind), line);
				out.push(']');
			},
			Rvalue::RawPtr(k, p) => {
				let m = matches!(k, mir::RawPtrKind::Mut);
				let _ = write!(out, "[\"rawptr\",{},", if m { "true" } else { "false" });
				self.place_json(p, out, Some(if m { "bm" } else { "br" }), line);
				out.push(']');
			},
			Rvalue::Cast(kind, op, ty) => {
				out.push_str("[\"cast\",");
				jesc(&format!("{:?}", kind), out);
				out.push(',');
				self.operand_json(op, out, line);
				out.push(',');
				jesc(&self.cx.ty_str(*ty), out);
				out.push(']');
			},
			Rvalue::BinaryOp(op, ab) => {
				out.push_str("[\"bin\",");
				jesc(&format!("{:?}", op), out);
				out.push(',');
				self.operand_json(&ab.0, out, line);
				out.push(',');
				self.operand_json(&ab.1, out, line);
				out.push(']');
			},
			Rvalue::UnaryOp(op, a) => {
				out.push_str("[\"un\",");
				jesc(&format!("{:?}", op), out);
				out.push(',');
				self.operand_json(a, out, line);
				out.push(']');
			},
			Rvalue::Discriminant(p) => {
				out.push_str("[\"disc\",");
				self.place_json(p, out, Some("r"), line);
				out.push(']');
			},
			Rvalue::CopyForDeref(p) => {
				out.push_str("[\"use\",[\"c\",");
				self.place_json(p, out, Some("r"), line);
				out.push_str("]]");
			},
			Rvalue::Aggregate(kind, ops) => {
				out.push_str("[\"agg\",");
				match &**kind {
					AggregateKind::Array(_) => out.push_str("\"array\",null,null,"),
					AggregateKind::Tuple => out.push_str("\"tuple\",null,null,"),
					AggregateKind::Adt(did, vi, _, _, _) => {
						let adt = self.cx.tcx.adt_def(*did);
						let v = adt.variant(*vi);
						out.push_str("\"adt\",");
						let p = self.cx.path(*did);
						jesc(&p, out);
						out.push(',');
						jesc(v.name.as_str(), out);
						out.push(',');
						let _ = writeln!(
							self.constructs,
							"{}\t{}\t{}\t{}",
							self.fn_path,
							p,
							v.name.as_str(),
							line
						);
					},
					AggregateKind::Closure(did, _)
					| AggregateKind::Coroutine(did, _)
					| AggregateKind::CoroutineClosure(did, _) => {
						out.push_str("\"closure\",");
						let p = self.cx.path(*did);
						jesc(&p, out);
						out.push_str(",null,");
					},
					AggregateKind::RawPtr(..) => out.push_str("\"rawptr\",null,null,"),
				}
				out.push('[');
				for (i, o) in ops.iter().enumerate() {
					if i > 0 {
						out.push(',');
					}
					self.operand_json(o, out, line);
				}
				out.push(']');
				// field names for ADTs
				if let AggregateKind::Adt(did, vi, _, _, active) = &**kind {
					let adt = self.cx.tcx.adt_def(*did);
					let v = adt.variant(*vi);
					out.push_str(",[");
					if let Some(a) = active {
						jesc(v.fields[*a].name.as_str(), out);
					} else {
						for (i, f) in v.fields.iter().enumerate() {
							if i > 0 {
								out.push(',');
							}
							jesc(f.name.as_str(), out);
						}
					}
					out.push(']');
				}
				out.push(']');
			},
			Rvalue::ThreadLocalRef(_) => out.push_str("[\"other\",\"tls\"]"),
			Rvalue::WrapUnsafeBinder(..) => out.push_str("[\"other\",\"binder\"]"),
		}
	}

	fn walk(&mut self) -> FnOut {
		let body = self.body;
		let tcx = self.cx.tcx;
		// pre-pass: where are locals used as call arguments (for borrow attribution)
		for bb in body.basic_blocks.iter() {
			if let Some(term) = &bb.terminator {
				if let TerminatorKind::Call { func, args, .. } = &term.kind {
					if let Some((rp, _, _)) = self.resolve_callee(func) {
						for a in args.iter() {
							if let Operand::Move(p) | Operand::Copy(p) = &a.node {
								if p.projection.is_empty() {
									self.arg_use.entry(p.local).or_default().push(rp.clone());
								}
							}
						}
					}
				}
			}
		}
		let mut out = String::with_capacity(4096);
		out.push_str("{\"fn\":");
		jesc(&self.fn_path, &mut out);
		let _ = write!(out, ",\"argc\":{}", body.arg_count);
		// locals
		out.push_str(",\"locals\":[");
		for (i, (_l, decl)) in body.local_decls.iter_enumerated().enumerate() {
			if i > 0 {
				out.push(',');
			}
			out.push_str("{\"ty\":");
			jesc(&self.cx.ty_str(decl.ty), &mut out);
			let mut t = decl.ty;
			loop {
				match t.kind() {
					ty::Ref(_, inner, _) => t = *inner,
					_ => break,
				}
			}
			if let ty::Adt(adt, _) = t.kind() {
				out.push_str(",\"adt\":");
				let p = self.cx.path(adt.did());
				jesc(&p, &mut out);
			}
			if let ty::Closure(did, _) = t.kind() {
				out.push_str(",\"closure\":");
				let p = self.cx.path(*did);
				jesc(&p, &mut out);
			}
			out.push('}');
		}
		out.push(']');
		// debug info: user variable names -> place
		out.push_str(",\"vars\":[");
		let mut first = true;
		for vdi in body.var_debug_info.iter() {
			if let mir::VarDebugInfoContents::Place(p) = &vdi.value {
				if !first {
					out.push(',');
				}
				first = false;
				out.push('[');
				jesc(vdi.name.as_str(), &mut out);
				out.push(',');
				self.place_json(p, &mut out, None, 0);
				out.push(']');
			}
		}
		out.push(']');
		out.push_str(",\"blocks\":[");
		for (bi, (_bb, data)) in body.basic_blocks.iter_enumerated().enumerate() {
			if bi > 0 {
				out.push(',');
			}
			out.push_str("{\"s\":[");
			let mut firsts = true;
			for st in data.statements.iter() {
				let line = self.cx.line(st.source_info.span);
				match &st.kind {
					StatementKind::Assign(b) => {
						let (place, rv) = &**b;
						if !firsts {
							out.push(',');
						}
						firsts = false;
						let _ = write!(out, "[{},", line);
						self.place_json(place, &mut out, Some("w"), line);
						out.push(',');
						self.rvalue_json(rv, &mut out, line, place);
						out.push(']');
					},
					StatementKind::SetDiscriminant { place, variant_index } => {
						if !firsts {
							out.push(',');
						}
						firsts = false;
						let _ = write!(out, "[{},", line);
						self.place_json(place, &mut out, Some("w"), line);
						let _ = write!(out, ",[\"setdisc\",{}]]", variant_index.as_u32());
					},
					_ => {},
				}
			}
			out.push_str("],\"t\":");
			let term = data.terminator();
			let line = self.cx.line(term.source_info.span);
			let exp = term.source_info.span.from_expansion();
			let _ = write!(out, "[{},", line);
			match &term.kind {
				TerminatorKind::Goto { target } => {
					let _ = write!(out, "\"goto\",{}", target.as_u32());
				},
				TerminatorKind::SwitchInt { discr, targets } => {
					out.push_str("\"switch\",");
					self.operand_json(discr, &mut out, line);
					out.push_str(",[");
					for (i, (v, t)) in targets.iter().enumerate() {
						if i > 0 {
							out.push(',');
						}
						let _ = write!(out, "[{},{}]", v, t.as_u32());
					}
					let _ = write!(out, "],{}", targets.otherwise().as_u32());
				},
				TerminatorKind::Return => out.push_str("\"ret\""),
				TerminatorKind::Unreachable => out.push_str("\"unreachable\""),
				TerminatorKind::UnwindResume => out.push_str("\"resume\""),
				TerminatorKind::UnwindTerminate(_) => out.push_str("\"abort\""),
				TerminatorKind::Drop { place, target, .. } => {
					out.push_str("\"drop\",");
					self.place_json(place, &mut out, None, line);
					let _ = write!(out, ",{}", target.as_u32());
				},
				TerminatorKind::Call { func, args, destination, target, .. } => {
					out.push_str("\"call\",{");
					match self.resolve_callee(func) {
						Some((rp, dp, rdid)) => {
							out.push_str("\"f\":");
							jesc(&rp, &mut out);
							if dp != rp {
								out.push_str(",\"t\":");
								jesc(&dp, &mut out);
							}
							// generic args of the call (self type etc.) for diagnostics
							if let Operand::Constant(c) = func {
								if let ty::FnDef(_, ga) = *c.const_.ty().kind() {
									if !ga.is_empty() {
										out.push_str(",\"g\":");
										let s = with_resolve_crate_name!(with_no_trimmed_paths!(
											with_no_visible_paths!(format!("{:?}", ga))
										));
										let s: String = s.chars().take(300).collect();
										jesc(&s, &mut out);
									}
								}
							}
							let (f, _l) = self.cx.loc(term.source_info.span);
							let _ = f;
							let _ = writeln!(
								self.calls,
								"{}\t{}\t{}\t{}\tcall\t{}",
								self.fn_path,
								rp,
								dp,
								line,
								if rdid.is_local() { "L" } else { "X" }
							);
						},
						None => {
							out.push_str("\"f\":null,\"fp\":");
							self.operand_json(func, &mut out, line);
							let _ = writeln!(
								self.calls,
								"{}\t{}\t{}\t{}\tindirect\tX",
								self.fn_path, "<indirect>", "<indirect>", line
							);
						},
					}
					out.push_str(",\"args\":[");
					for (i, a) in args.iter().enumerate() {
						if i > 0 {
							out.push(',');
						}
						self.operand_json(&a.node, &mut out, line);
					}
					out.push_str("],\"dest\":");
					self.place_json(destination, &mut out, Some("w"), line);
					match target {
						Some(t) => {
							let _ = write!(out, ",\"ret\":{}", t.as_u32());
						},
						None => out.push_str(",\"ret\":null"),
					}
					if exp {
						out.push_str(",\"exp\":true");
					}
					out.push('}');
				},
				TerminatorKind::TailCall { func, args, .. } => {
					out.push_str("\"tailcall\",{");
					if let Some((rp, dp, _)) = self.resolve_callee(func) {
						out.push_str("\"f\":");
						jesc(&rp, &mut out);
						let _ = writeln!(
							self.calls,
							"{}\t{}\t{}\t{}\tcall\tL",
							self.fn_path, rp, dp, line
						);
					} else {
						out.push_str("\"f\":null");
					}
					out.push_str(",\"args\":[");
					for (i, a) in args.iter().enumerate() {
						if i > 0 {
							out.push(',');
						}
						self.operand_json(&a.node, &mut out, line);
					}
					out.push_str("]}");
				},
				TerminatorKind::Assert { cond, expected, target, msg, .. } => {
					out.push_str("\"assert\",");
					self.operand_json(cond, &mut out, line);
					let _ = write!(out, ",{},{},", expected, target.as_u32());
					let m = match &**msg {
						mir::AssertKind::BoundsCheck { .. } => "bounds".to_string(),
						mir::AssertKind::Overflow(op, ..) => format!("overflow:{:?}", op),
						mir::AssertKind::OverflowNeg(..) => "overflowneg".to_string(),
						mir::AssertKind::DivisionByZero(..) => "divzero".to_string(),
						mir::AssertKind::RemainderByZero(..) => "remzero".to_string(),
						_ => "other".to_string(),
					};
					jesc(&m, &mut out);
				},
				TerminatorKind::Yield { value, resume, drop, .. } => {
					out.push_str("\"yield\",");
					self.operand_json(value, &mut out, line);
					let _ = write!(out, ",{}", resume.as_u32());
					match drop {
						Some(d) => {
							let _ = write!(out, ",{}", d.as_u32());
						},
						None => out.push_str(",null"),
					}
				},
				TerminatorKind::CoroutineDrop => out.push_str("\"cordrop\""),
				TerminatorKind::FalseEdge { real_target, imaginary_target } => {
					let _ = write!(
						out,
						"\"falseedge\",{},{}",
						real_target.as_u32(),
						imaginary_target.as_u32()
					);
				},
				TerminatorKind::FalseUnwind { real_target, .. } => {
					let _ = write!(out, "\"falseunwind\",{}", real_target.as_u32());
				},
				TerminatorKind::InlineAsm { .. } => out.push_str("\"asm\""),
			}
			out.push(']');
			if data.is_cleanup {
				out.push_str(",\"cleanup\":true");
			}
			out.push('}');
		}
		out.push_str("]}");
		let _ = tcx;
		FnOut { json: out }
	}

	/// FnDef / closure constants used as values (not as the callee of a call): a function
	/// passed by name still counts as "referenced by" for who-may-call rules.
	fn record_fn_refs(&mut self) {
		let body = self.body;
		let mut refs: Vec<(DefId, usize)> = Vec::new();
		let mut see = |op: &Operand<'tcx>, sp: Span, cx: &Cx<'tcx>| {
			if let Operand::Constant(c) = op {
				if let ty::FnDef(did, _) = *c.const_.ty().kind() {
					refs.push((did, cx.line(sp)));
				}
			}
		};
		for bb in body.basic_blocks.iter() {
			for st in bb.statements.iter() {
				if let StatementKind::Assign(b) = &st.kind {
					match &b.1 {
						Rvalue::Use(op, _) | Rvalue::Cast(_, op, _) | Rvalue::Repeat(op, _) => {
							see(op, st.source_info.span, self.cx)
						},
						Rvalue::Aggregate(_, ops) => {
							for o in ops.iter() {
								see(o, st.source_info.span, self.cx)
							}
						},
						_ => {},
					}
				}
			}
			if let Some(t) = &bb.terminator {
				if let TerminatorKind::Call { args, .. } = &t.kind {
					for a in args.iter() {
						see(&a.node, t.source_info.span, self.cx)
					}
				}
			}
		}
		for (did, line) in refs {
			let p = self.cx.path(did);
			let _ = writeln!(
				self.calls,
				"{}\t{}\t{}\t{}\tref\t{}",
				self.fn_path,
				p,
				p,
				line,
				if did.is_local() { "L" } else { "X" }
			);
		}
	}
}

struct Cb;

impl Callbacks for Cb {
	fn after_expansion<'tcx>(&mut self, _c: &Compiler, tcx: TyCtxt<'tcx>) -> Compilation {
		let dir = match std::env::var("VERIF_FACTS_DIR") {
			Ok(d) => d,
			Err(_) => return Compilation::Continue,
		};
		let crate_name = tcx.crate_name(rustc_hir::def_id::LOCAL_CRATE).to_string();
		let wanted = std::env::var("VERIF_CRATES").unwrap_or_default();
		if !wanted.split(',').any(|w| w == crate_name) {
			return Compilation::Continue;
		}
		// skip build scripts / test harness builds
		if tcx.sess.opts.test {
			return Compilation::Continue;
		}
		let crate_types = tcx.crate_types();
		if crate_types.iter().any(|t| matches!(t, rustc_session_types::Executable)) {
			return Compilation::Continue;
		}
		extract(tcx, &dir, &crate_name);
		Compilation::Continue
	}
}

mod rustc_session_types {
	extern crate rustc_session;
	pub use rustc_session::config::CrateType::*;
}

fn extract<'tcx>(tcx: TyCtxt<'tcx>, dir: &str, crate_name: &str) {
	let outdir = format!("{}/{}", dir, crate_name);
	let _ = std::fs::create_dir_all(&outdir);
	let _ = std::fs::remove_file(format!("{}/DONE", outdir));
	let mut cx = Cx { tcx, path_cache: HashMap::new() };
	let mut fns = String::new();
	let mut calls = String::new();
	let mut constructs = String::new();
	let mut fieldacc = String::new();
	let mut consts = String::new();
	let mut impls = String::new();
	let mut adts = String::new();
	let mut skipped = String::new();
	let mut cfg = std::io::BufWriter::new(std::fs::File::create(format!("{}/cfg.jsonl", outdir)).unwrap());
	let mut idx = String::new();
	let mut offset: u64 = 0;
	let mut nbodies = 0usize;
	let mut nblocks = 0usize;

	// Phase A: take a private copy of every body before any query that may steal
	// `mir_built` runs (revealing an opaque type in post-analysis mode borrow-checks, and
	// thereby steals, the defining function's MIR).
	let mut bodies: Vec<(LocalDefId, DefKind, Option<Body<'tcx>>)> = Vec::new();
	for owner in tcx.hir_body_owners() {
		let kind = tcx.def_kind(owner);
		let is_fn = matches!(
			kind,
			DefKind::Fn | DefKind::AssocFn | DefKind::Closure | DefKind::SyntheticCoroutineBody
		);
		if !is_fn {
			continue;
		}
		let steal = tcx.mir_built(owner);
		if steal.is_stolen() {
			bodies.push((owner, kind, None));
		} else {
			bodies.push((owner, kind, Some(steal.borrow().clone())));
		}
	}
	for (owner, kind, ob) in bodies.iter() {
		let owner = *owner;
		let kind = *kind;
		let did = owner.to_def_id();
		let fn_path = cx.path(did);
		let body: &Body<'tcx> = match ob {
			Some(b) => b,
			None => {
				// const fns already evaluated by CTFE during type checking
				if matches!(kind, DefKind::Fn | DefKind::AssocFn) && tcx.is_const_fn(did) {
					tcx.mir_for_ctfe(did)
				} else {
					let _ = writeln!(skipped, "{}\tstolen", fn_path);
					continue;
				}
			},
		};
		let (file, lo) = cx.loc(body.span);
		let hi = {
			let sm = tcx.sess.source_map();
			sm.lookup_char_pos(body.span.hi()).line
		};
		// lexical parent fn (closures)
		let mut parent = String::new();
		if matches!(kind, DefKind::Closure | DefKind::SyntheticCoroutineBody) {
			let root = tcx.typeck_root_def_id(did);
			parent = cx.path(root);
		}
		// trait method implemented, if any
		let mut trait_item = String::new();
		if matches!(kind, DefKind::AssocFn) {
			if let Some(ai) = tcx.opt_associated_item(did) {
				if let Some(tid) = ai.trait_item_def_id() {
					if tid != did {
						trait_item = cx.path(tid);
					}
				}
			}
		}
		let vis = if matches!(kind, DefKind::Fn | DefKind::AssocFn) {
			if tcx.visibility(did).is_public() {
				"pub"
			} else {
				"priv"
			}
		} else {
			"-"
		};
		let _ = writeln!(
			fns,
			"{}\t{:?}\t{}\t{}\t{}\t{}\t{}\t{}",
			fn_path, kind, file, lo, hi, parent, trait_item, vis
		);
		let typing_env = TypingEnv::post_analysis(tcx, did);
		let mut w = BodyWalker {
			cx: &mut cx,
			body,
			owner,
			fn_path: fn_path.clone(),
			typing_env,
			calls: &mut calls,
			constructs: &mut constructs,
			fieldacc: &mut fieldacc,
			arg_use: HashMap::new(),
		};
		let _ = w.owner;
		let fo = w.walk();
		w.record_fn_refs();
		nbodies += 1;
		nblocks += body.basic_blocks.len();
		let bytes = fo.json.as_bytes();
		cfg.write_all(bytes).unwrap();
		cfg.write_all(b"\n").unwrap();
		let _ = writeln!(idx, "{}\t{}\t{}", fn_path, offset, bytes.len());
		offset += bytes.len() as u64 + 1;
	}
	cfg.flush().unwrap();

	// constants, ADTs
	for ldid in tcx.hir_crate_items(()).definitions() {
		let did = ldid.to_def_id();
		match tcx.def_kind(ldid) {
			DefKind::Const { .. } | DefKind::AssocConst { .. } => {
				let generics = tcx.generics_of(did);
				if generics.count() != 0 || generics.parent_count != 0 && tcx.generics_of(generics.parent.unwrap()).count() != 0 {
					// generic-dependent: only try when the parent has no type params
				}
				if tcx.generics_of(did).requires_monomorphization(tcx) {
					continue;
				}
				// trait-declared assoc consts without a default have no body
				if let Some(ai) = tcx.opt_associated_item(did) {
					if matches!(ai.container, ty::AssocContainer::Trait) && !ai.defaultness(tcx).has_value() {
						continue;
					}
				}
				let ty = tcx.type_of(did).instantiate_identity().skip_norm_wip();
				if !(ty.is_integral() || ty.is_bool()) {
					continue;
				}
				if let Ok(val) = tcx.const_eval_poly(did) {
					if let Some(si) = val.try_to_scalar_int() {
						let size = si.size();
						let v = if ty.is_signed() {
							format!("{}", si.to_int(size))
						} else {
							format!("{}", si.to_uint(size))
						};
						let p = cx.path(did);
						let (f, l) = cx.loc(tcx.def_span(did));
						let _ = writeln!(consts, "{}\t{}\t{}\t{}\t{}", p, cx.ty_str(ty), v, f, l);
					}
				}
			},
			DefKind::Struct | DefKind::Enum => {
				let adt = tcx.adt_def(did);
				let p = cx.path(did);
				for v in adt.variants().iter() {
					if v.fields.is_empty() {
						let _ = writeln!(adts, "{}\t{}\t-\t-", p, v.name);
					}
					for f in v.fields.iter() {
						let fty = tcx.type_of(f.did).instantiate_identity().skip_norm_wip();
						let _ = writeln!(
							adts,
							"{}\t{}\t{}\t{}\t{}",
							p,
							v.name,
							f.name,
							tsv_clean(&cx.ty_str(fty)),
							if tcx.visibility(f.did).is_public() { "pub" } else { "priv" }
						);
					}
				}
			},
			_ => {},
		}
	}
	// trait impls
	for (trait_did, impl_ids) in tcx.all_local_trait_impls(()).iter() {
		let tp = cx.path(*trait_did);
		for impl_id in impl_ids.iter() {
			let self_ty = tcx.type_of(impl_id.to_def_id()).instantiate_identity().skip_norm_wip();
			let st = tsv_clean(&cx.ty_str(self_ty));
			for ai in tcx.associated_items(impl_id.to_def_id()).in_definition_order() {
				if matches!(ai.kind, ty::AssocKind::Fn { .. }) {
					let mp = cx.path(ai.def_id);
					let tm = match ai.trait_item_def_id() {
						Some(t) => cx.path(t),
						None => String::new(),
					};
					let derived = if tcx.is_automatically_derived(impl_id.to_def_id()) { "derived" } else { "hand" };
					let _ = writeln!(impls, "{}\t{}\t{}\t{}\t{}", tp, st, mp, tm, derived);
				}
			}
		}
	}
	let wr = |name: &str, s: &str| {
		std::fs::write(format!("{}/{}", outdir, name), s).unwrap();
	};
	wr("fns.tsv", &fns);
	wr("calls.tsv", &calls);
	wr("constructs.tsv", &constructs);
	wr("fieldacc.tsv", &fieldacc);
	wr("consts.tsv", &consts);
	wr("impls.tsv", &impls);
	wr("adts.tsv", &adts);
	wr("skipped.tsv", &skipped);
	wr("cfg.idx", &idx);
	let cfgs: Vec<String> = tcx
		.sess
		.opts
		.cg
		.debug_assertions
		.map(|b| vec![format!("debug_assertions={}", b)])
		.unwrap_or_default();
	let stamp = format!(
		"run={}\nbodies={}\nblocks={}\n{}\n",
		std::env::var("VERIF_RUN_ID").unwrap_or_default(),
		nbodies,
		nblocks,
		cfgs.join(" ")
	);
	wr("DONE", &stamp);
}

fn main() {
	let mut args: Vec<String> = std::env::args().collect();
	// RUSTC_WORKSPACE_WRAPPER: argv[1] is the real rustc path
	if args.len() > 1 && (args[1].ends_with("rustc") || args[1].contains("/rustc")) {
		args.remove(1);
	}
	let mut cb = Cb;
	rustc_driver::run_compiler(&args, &mut cb);
}
