#!/bin/bash
# Offline setup: build the fact-extraction driver (and the TLV table extractor) and warm
# the dependency build cache by extracting facts once from /repo's current tree.
set -e
cd /verif/driver && CARGO_NET_OFFLINE=true cargo build --release --offline 2>&1 | tail -3
if [ -d /verif/synx ]; then (cd /verif/synx && CARGO_NET_OFFLINE=true cargo build --release --offline 2>&1 | tail -3); fi
cd /verif && python3 - <<'P'
import sys, os
sys.path.insert(0, '/verif')
import importlib.machinery, importlib.util
loader = importlib.machinery.SourceFileLoader('check', '/verif/check')
spec = importlib.util.spec_from_loader('check', loader)
m = importlib.util.module_from_spec(spec); loader.exec_module(m)
fdir, th, n, es, cached = m.ensure_facts('release')
print('facts:', fdir, 'files hashed:', n, 'extraction s:', round(es, 1))
sys.exit(0 if fdir else 1)
P
