#!/usr/bin/env python3
"""Prints what rules/mutations_table.json would have to contain for /repo's current tree (keys present in BOTH build profiles);
--write adds the missing keys (review the printed list first: every key is one stored collection mutated by one function)."""
import sys, json, os, importlib.machinery, importlib.util
sys.path.insert(0, '/verif/rules')
import engine, mutations
loader = importlib.machinery.SourceFileLoader('check', '/verif/check'); spec = importlib.util.spec_from_loader('check', loader); m = importlib.util.module_from_spec(spec); loader.exec_module(m)
keys = None
counts = {}
functions = {}
for prof in ('release', 'dev'):
	F = engine.Facts(m.ensure_facts(prof)[0])
	cnt, where, known = mutations.census(F)
	ks = set(cnt)
	keys = ks if keys is None else (keys & ks)
	counts[prof] = [list(k) + [c] for k, c in sorted(cnt.items())]
	functions[prof] = sorted([fl, t] for fl, ts in known.items() for t in ts)
p = '/verif/rules/mutations_table.json'
have = {tuple(x) for x in json.load(open(p))['keys']} if os.path.exists(p) else set()
print('missing from table   :', len(keys - have))
for k in sorted(keys - have)[:2000]:
	print('  +', k)
print('in table, not in tree:', sorted(have - keys))
if '--write' in sys.argv:
	json.dump({'keys': [list(k) for k in sorted(keys | have)], 'counts': counts, 'functions': functions}, open(p, 'w'), separators=(',', ':'))
	print('written', len(keys | have))
