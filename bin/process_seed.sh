#!/bin/bash
# usage: process_seed.sh <tag>   - confirms both seeds of a sub-agent (demo both ways + suite) and then lists which rules report them
tag=$1
for mk in m1 m2; do
  d=/tmp/seed-out/$tag/$mk
  [ -f $d/patch.diff ] || continue
  python3 /verif/bin/confirm_seed.py $tag $mk > $d/confirm.log 2>&1
  python3 /verif/bin/try_seed.py $tag $mk > $d/try.log 2>&1
done
echo done > /tmp/seed-out/$tag/PROCESSED
