#!/bin/bash
# usage: try_seed.sh <patch.diff> <Cxx> [more Cxx...]   - applies a seeded patch to /repo, runs the checks, reverts
P=$1; shift
cd /repo && git apply "$P" || { echo "patch does not apply"; exit 9; }
for c in "$@"; do (cd /verif && ./check $c 2>&1 | grep -E "VIOLATION|rule |quick:" | cut -c1-400); done
git -C /repo checkout -- . 
git -C /repo status --short | head -3
