#!/usr/bin/env python3
"""usage: probe_patch.py <patch.diff> [Cxx ...]
dev helper: applies a patch to a scratch copy of /repo (never /repo itself), extracts facts and evaluates the rule tables (default all);
prints every violated rule instance. The scratch copy and its build output are removed afterwards. Nothing from the patch is executed."""
import sys, os, json, subprocess, tempfile, shutil, time
HERE = '/verif'
pf = os.path.abspath(sys.argv[1])
props = sys.argv[2:] or ['C%02d' % i for i in range(1, 21)]
tmp = tempfile.mkdtemp(prefix='verif-probe-')
t0 = time.time()
try:
	repo = os.path.join(tmp, 'repo')
	subprocess.run(['rsync', '-a', '--exclude', '.git', '--exclude', 'target', '--exclude', 'fuzz', '/repo/', repo + '/'], check=True)
	r = subprocess.run(['git', 'apply', '--whitespace=nowarn', pf], cwd=repo, stdout=subprocess.PIPE, stderr=subprocess.STDOUT, text=True)
	if r.returncode != 0:
		print('patch does not apply:', r.stdout[-300:]); sys.exit(9)
	facts = os.path.join(tmp, 'facts'); tgt = os.path.join(tmp, 'target')
	subprocess.run(['cp', '-a', os.path.join(HERE, '.work', 'target'), tgt], check=True)
	r = subprocess.run([os.path.join(HERE, 'bin', 'extract.sh'), repo, facts, tgt, 'release'], stdout=subprocess.PIPE, stderr=subprocess.STDOUT, text=True)
	if r.returncode != 0:
		print('broken (does not compile?):', r.stdout[-600:]); sys.exit(8)
	code = ('import sys, json; sys.path.insert(0, %r); import runner\nout = []\nfor pid in %r:\n\trs, st = runner.run_property(pid, %r)\n\tout += [[pid, r.rule, r.key, r.msg[:260], r.where] for r in rs if not r.ok]\nprint(json.dumps(out))') % (os.path.join(HERE, 'rules'), props, facts)
	r = subprocess.run([sys.executable, '-c', code], stdout=subprocess.PIPE, stderr=subprocess.PIPE, text=True)
	if r.returncode != 0:
		print('rule evaluation crashed:', r.stderr[-1200:]); sys.exit(7)
	bad = json.loads(r.stdout.strip().splitlines()[-1])
	seen = set()
	for b in bad:
		if (b[0], b[1], b[2]) in seen: continue
		seen.add((b[0], b[1], b[2]))
		print('HIT %s %s %s :: %s [%s]' % (b[0], b[1], b[2][:70], b[3], b[4] or ''))
	print('total violated instances: %d (%.0fs)' % (len(bad), time.time() - t0))
finally:
	shutil.rmtree(tmp, ignore_errors=True)
