#!/usr/bin/env python3
"""usage: try_seed.py <tag> <mk> [Cxx ...]
Applies /tmp/seed-out/<tag>/<mk>/patch.diff in the scratch worktree /tmp/wt/<tag> (never /repo), extracts facts from that tree and
evaluates the rule tables (default: all) on them; prints every violated rule instance; reverts the worktree. Writes no evidence."""
import sys, os, subprocess, importlib.machinery, importlib.util, time
sys.path.insert(0, '/verif/rules')
tag, mk = sys.argv[1], sys.argv[2]
props = sys.argv[3:] or ['C%02d' % i for i in range(1, 21)]
wt = '/tmp/wt/%s' % tag
patch = '/tmp/seed-out/%s/%s/patch.diff' % (tag, mk)
if not os.path.isdir(wt):
	# no worktree (kept seed): use a fresh detached worktree
	subprocess.run('git -C /repo worktree add -q --detach %s HEAD' % wt, shell=True, check=True)
if len(sys.argv) > 2 and os.path.exists('/verif/seeded/%s-%s/patch.diff' % (tag, mk)) and not os.path.exists(patch):
	patch = '/verif/seeded/%s-%s/patch.diff' % (tag, mk)
def sh(c):
	return subprocess.run(c, shell=True, cwd=wt, stdout=subprocess.PIPE, stderr=subprocess.STDOUT, text=True)
sh('git checkout -- .')
r = sh('git apply %s' % patch)
if r.returncode != 0:
	print('patch does not apply:', r.stdout[-500:]); sys.exit(9)
try:
	loader = importlib.machinery.SourceFileLoader('check', '/verif/check')
	spec = importlib.util.spec_from_loader('check', loader)
	m = importlib.util.module_from_spec(spec); loader.exec_module(m)
	t0 = time.time()
	fdir, th, n, es, cached = m.ensure_facts('release', repo=wt)
	if fdir is None:
		print('extraction failed (does the patch compile?)'); sys.exit(8)
	print('facts %s (%.0fs)' % (fdir, es))
	import runner
	tot = 0
	for pid in props:
		try:
			importlib.import_module(pid)
		except ImportError:
			continue
		res, st = runner.run_property(pid, fdir)
		bad = [x for x in res if not x.ok]
		tot += len(bad)
		seen = set()
		for x in bad:
			if (x.rule, x.key) in seen:
				continue
			seen.add((x.rule, x.key))
			print('HIT %s %s %s :: %s [%s]' % (pid, x.rule, x.key[:60], x.msg[:260], x.where or ''))
	print('total violated instances: %d (%.0fs)' % (tot, time.time() - t0))
finally:
	sh('git checkout -- .')
