#!/usr/bin/env python3
"""Prints (does not write) what the census tables of rules/provenance.py would have to contain for /repo's current tree, over BOTH build
profiles (release and dev: debug assertions add constructions and comparisons) - used when reviewing additions to
rules/provenance_aliases.json and rules/provenance_cmps.json. usage: gen_tables.py [--write-cmps]"""
import sys, json, importlib.machinery, importlib.util
sys.path.insert(0, '/verif/rules')
import engine, provenance
loader = importlib.machinery.SourceFileLoader('check', '/verif/check'); spec = importlib.util.spec_from_loader('check', loader); m = importlib.util.module_from_spec(spec); loader.exec_module(m)
al, cm = set(), set()
scope = {a for v in provenance.SCOPE.values() for a in v}
for prof in ('release', 'dev'):
	F = engine.Facts(m.ensure_facts(prof)[0])
	for c in provenance.census(F):
		if (c[0] in scope or c[0].split('::')[0] in scope) and c[1] != c[2]:
			al.add((c[0], c[1], c[2]))
	for x in provenance.cmp_census(F):
		cm.add(tuple(x['key']))
have_al = provenance.aliases()
have_cm = provenance.cmp_table()
print('aliases missing from table:', sorted(al - have_al))
print('aliases no longer needed  :', sorted(have_al - al))
print('cmps missing from table   :', sorted(cm - have_cm))
print('cmps no longer needed     :', sorted(have_cm - cm))
if '--write-cmps' in sys.argv:
	json.dump([list(k) for k in sorted(cm | have_cm)], open('/verif/rules/provenance_cmps.json', 'w'), indent=0)
	print('written', len(cm | have_cm))
