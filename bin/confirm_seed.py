#!/usr/bin/env python3
"""usage: confirm_seed.py <prop> <mk> [--skip-suite]
Confirms a seeded defect in the sub-agent's own scratch worktree /tmp/wt/<prop> (reusing its build cache):
 1. demo alone passes on the pristine tree   2. demo fails with the patch
 3. the existing tests of the touched crates still pass with the patch (demo removed)
Writes /tmp/seed-out/<prop>/<mk>/confirm.json"""
import json, subprocess, sys, os, re, time
prop, mk = sys.argv[1], sys.argv[2]
skip_suite = '--skip-suite' in sys.argv
wt = '/tmp/wt/%s' % prop
d = '/tmp/seed-out/%s/%s' % (prop, mk)
meta = json.load(open(os.path.join(d, 'meta.json')))
def sh(cmd, timeout=5400):
	t0 = time.time()
	r = subprocess.run(cmd, shell=True, cwd=wt, stdout=subprocess.PIPE, stderr=subprocess.STDOUT, text=True, timeout=timeout)
	return r.returncode, r.stdout, time.time() - t0
def reset():
	sh('git checkout -- . && git clean -fdq -e target')
res = {'property': prop, 'mutant': mk}
reset()
rc, o, _ = sh('git apply %s/demo.diff' % d)
if rc != 0:
	res['error'] = 'demo.diff does not apply: ' + o[-300:]
else:
	demo = meta['demo_cmd']
	demo = re.sub(r'^cd \S+ && ', '', demo)
	rc1, o1, t1 = sh(demo)
	res['demo_without_patch'] = {'rc': rc1, 'tail': o1[-600:], 's': round(t1)}
	rc, o, _ = sh('git apply %s/patch.diff' % d)
	if rc != 0:
		res['error'] = 'patch.diff does not apply on top of demo: ' + o[-300:]
	else:
		rc2, o2, t2 = sh(demo)
		res['demo_with_patch'] = {'rc': rc2, 'tail': o2[-900:], 's': round(t2)}
		if not skip_suite:
			reset()
			sh('git apply %s/patch.diff' % d)
			crates = set()
			for f in meta.get('files_changed', []):
				crates.add(f.split('/')[0])
			suite = {}
			for c in sorted(crates):
				# a few multi-threaded tests of the repository (chanmon_update_fail_tests::test_single_channel_multiple_mpp) occasionally
				# dead-lock on a loaded machine whatever the patch: bound the run and retry once before calling it a failure
				cmd = 'timeout -k 5 1500 cargo test --offline -p %s %s 2>&1 | grep -E "^test result|FAILED|failed|panicked" | head -40' % (c, '--lib' if c == 'lightning' else '')
				for attempt in (1, 2):
					rc3, o3, t3 = sh(cmd)
					if 'test result' in o3:
						break
				suite[c] = {'out': o3[-1500:], 's': round(t3), 'attempts': attempt}
			res['suite_with_patch'] = suite
reset()
ok = res.get('demo_without_patch', {}).get('rc') == 0 and res.get('demo_with_patch', {}).get('rc', 0) != 0
res['confirmed_demo'] = ok
json.dump(res, open(os.path.join(d, 'confirm.json'), 'w'), indent=1)
print(json.dumps(res, indent=1)[:3000])
