#!/usr/bin/env python3
"""Prints what rules/writes_table.json would have to contain for /repo's current tree (triples present in BOTH build profiles); --write adds them."""
import sys, json, os, importlib.machinery, importlib.util
sys.path.insert(0, '/verif/rules')
import engine, writes
loader = importlib.machinery.SourceFileLoader('check', '/verif/check'); spec = importlib.util.spec_from_loader('check', loader); m = importlib.util.module_from_spec(spec); loader.exec_module(m)
keys = None
for prof in ('release', 'dev'):
	F = engine.Facts(m.ensure_facts(prof)[0])
	ks, where, known = writes.census(F)
	keys = set(ks) if keys is None else (keys & ks)
p = '/verif/rules/writes_table.json'
have = {tuple(x) for x in json.load(open(p))['keys']} if os.path.exists(p) else set()
print('missing from table   :', len(keys - have))
for k in sorted(keys - have)[:60]:
	print('  +', k)
print('in table, not in tree:', sorted(have - keys)[:60])
if '--write' in sys.argv:
	json.dump({'keys': [list(k) for k in sorted(keys | have)]}, open(p, 'w'), indent=0)
	print('written', len(keys | have))
