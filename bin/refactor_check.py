#!/usr/bin/env python3
"""Negative controls: behaviour-preserving edits of /repo must not raise any alarm.

usage: refactor_check.py [-j N] [--only <id-substring>]
Each entry of selftest/refactors.json (a rename of a local, a guard extracted into a helper, an algebraically equivalent
comparison, reordered independent statements, `?` <-> match, ...) is applied to a scratch copy of /repo's working tree,
facts are extracted once and EVERY rule table is evaluated on them.  Outcome per refactor: clean | ALARM (+ rule keys) |
stale | broken (does not compile)."""
import sys, os, json, subprocess, tempfile, shutil, time, concurrent.futures
HERE = os.path.dirname(os.path.dirname(os.path.abspath(__file__)))
sys.path.insert(0, os.path.join(HERE, 'bin'))
REPO = os.environ.get('VERIF_REPO', '/repo')
PROPS = sorted(f[:-3] for f in os.listdir(os.path.join(HERE, 'rules')) if f.startswith('C') and f[1:3].isdigit() and f.endswith('.py'))

def run_one(m):
	t0 = time.time()
	res = {'id': m['id'], 'what': m.get('what', '')}
	tmp = tempfile.mkdtemp(prefix='verif-refactor-')
	try:
		repo = os.path.join(tmp, 'repo')
		subprocess.run(['rsync', '-a', '--exclude', '.git', '--exclude', 'target', '--exclude', 'fuzz', REPO + '/', repo + '/'], check=True)
		if m.get('patch'):
			# an independently written behaviour-preserving change kept as a diff (selftest/refactors/<id>.diff)
			r = subprocess.run(['git', 'apply', '-p1', os.path.join(HERE, m['patch'])], cwd=repo, stdout=subprocess.PIPE, stderr=subprocess.STDOUT, text=True)
			if r.returncode != 0:
				res['outcome'] = 'stale'; res['note'] = 'patch does not apply: ' + r.stdout[-200:]; return res
		for e in m.get('edits', []):
			p = os.path.join(repo, e['file'])
			src = open(p).read()
			n = src.count(e['find'])
			if n != e.get('count', 1):
				res['outcome'] = 'stale'; res['note'] = '`find` occurs %d times in %s' % (n, e['file']); return res
			open(p, 'w').write(src.replace(e['find'], e['replace']))
		facts = os.path.join(tmp, 'facts'); tgt = os.path.join(tmp, 'target')
		warm = os.path.join(HERE, '.work', 'target')
		if os.path.isdir(warm):
			subprocess.run(['cp', '-a', warm, tgt], check=True)
		r = subprocess.run([os.path.join(HERE, 'bin', 'extract.sh'), repo, facts, tgt, 'release'], stdout=subprocess.PIPE, stderr=subprocess.STDOUT, text=True)
		if r.returncode != 0:
			res['outcome'] = 'broken'; res['note'] = r.stdout[-800:]; return res
		code = ('import sys, json; sys.path.insert(0, %r); import runner\nout = []\nfor pid in %r:\n\trs, st = runner.run_property(pid, %r)\n\tout += [{"prop": pid, "rule": r.rule, "key": r.key, "msg": r.msg[:240], "where": r.where} for r in rs if not r.ok]\nprint(json.dumps(out))') % (os.path.join(HERE, 'rules'), PROPS, facts)
		r = subprocess.run([sys.executable, '-c', code], stdout=subprocess.PIPE, stderr=subprocess.PIPE, text=True)
		if r.returncode != 0:
			res['outcome'] = 'broken'; res['note'] = 'rule evaluation crashed: ' + r.stderr[-800:]; return res
		bad = json.loads(r.stdout.strip().splitlines()[-1])
		res['alarms'] = bad
		res['outcome'] = 'clean' if not bad else 'ALARM'
		return res
	finally:
		res['wall_s'] = round(time.time() - t0, 1)
		shutil.rmtree(tmp, ignore_errors=True)

if __name__ == '__main__':
	args = sys.argv[1:]
	jobs, only = 4, None
	i = 0
	while i < len(args):
		if args[i] == '-j': jobs = int(args[i + 1]); i += 2
		elif args[i] == '--only': only = args[i + 1]; i += 2
		else: i += 1
	ms = [m for m in json.load(open(os.path.join(HERE, 'selftest', 'refactors.json'))) if not only or only in m['id']]
	with concurrent.futures.ThreadPoolExecutor(max_workers=jobs) as ex:
		out = list(ex.map(run_one, ms))
	for r in out:
		print('%-7s %-40s %s (%.0fs) %s' % (r['outcome'], r['id'], r['what'][:80], r['wall_s'], r.get('note', '')[:300]))
		for a in r.get('alarms', []):
			print('        %s %s %s [%s] %s' % (a['prop'], a['rule'], a['key'][:70], a['where'], a['msg'][:150]))
	json.dump(out, open(os.path.join(HERE, '.work', 'refactor_check.json'), 'w'), indent=1)
	sys.exit(0 if all(r['outcome'] in ('clean', 'stale') for r in out) else 1)
