#!/usr/bin/env python3
"""usage: run_synx.py <repo> <out.jsonl>  - runs synx over the non-test library sources of the workspace crates"""
import os, re, subprocess, sys
repo, out = sys.argv[1], sys.argv[2]
CRATES = ['lightning', 'lightning-invoice', 'lightning-types', 'lightning-persister', 'lightning-block-sync', 'lightning-background-processor', 'lightning-rapid-gossip-sync', 'lightning-liquidity']
files = []
excluded = set()
for c in CRATES:
	base = os.path.join(repo, c, 'src')
	for root, dirs, fs in os.walk(base):
		for f in fs:
			if f.endswith('.rs'):
				p = os.path.join(root, f)
				files.append(p)
				src = open(p, encoding='utf-8', errors='replace').read()
				for m in re.finditer(r'#\[cfg\((?:test|any\(test[^\]]*|all\(test[^\]]*)\)\]\s*(?:#\[[^\]]*\]\s*)*(?:pub(?:\([a-z]+\))?\s+)?mod\s+(\w+)\s*;', src):
					d = root if f in ('mod.rs', 'lib.rs') else os.path.join(root, f[:-3])
					excluded.add(os.path.join(d, m.group(1) + '.rs'))
					excluded.add(os.path.join(d, m.group(1), 'mod.rs'))
files = sorted(f for f in files if f not in excluded)
exe = '/verif/synx/target/release/synx'
r = subprocess.run([exe, out] + files, cwd=repo)
sys.exit(r.returncode)
