#!/usr/bin/env python3
"""usage: seed_prompt.py <Cxx> <tag e.g. C01r4> [emphasis-key]
Prints the prompt given to an independent seeding sub-agent: the property record (from properties.jsonl) and the
location of its scratch worktree. Nothing else from /verif is disclosed."""
import json, sys
pid, tag = sys.argv[1], sys.argv[2]
emph = sys.argv[3] if len(sys.argv) > 3 else 'r4'
prop = [json.loads(l) for l in open('/verif/properties.jsonl') if json.loads(l)['id'] == pid][0]
EMPH = {
 'r7': """Kinds of change I am most interested in this time (pick two DIFFERENT kinds, in two DIFFERENT functions, ideally in two different files):
 * ARITHMETIC and UNITS inside an expression (no named constant changed, no check deleted): a rounding direction (/ vs div_ceil, floor vs ceil of msat -> sat),
   `+ 1` / `- 1` dropped or added, `<` vs `<=` inside a computed bound that feeds a later comparison, saturating vs checked vs wrapping, a multiplication done
   before instead of after a division, a weight / fee computed with the wrong one of two similar formulas, a value scaled twice or not at all;
 * a change in a trait impl or conversion that callers rely on silently: `Default`, `From` / `TryFrom` / `Into`, `Ord` / `PartialOrd` / `PartialEq` / `Hash`, `Display` / `FromStr`
   of an identifier, an iterator `size_hint`, a `Deref` target, a `Clone` that does not copy one field;
 * TWO cooperating sites that each look fine alone: a producer and a consumer that now disagree (one changed, the other not) about an encoding, a unit, an index base,
   the meaning of `None`, which side `local` refers to, or the order of a tuple;
 * a feature-flag, channel-type or config dependent branch taken for the wrong variant (anchors vs zero-fee-commitments vs legacy, 0-conf, option_scid_alias, taproot, trampoline, dual-funding, async payments)
   where the common variant still behaves correctly;
 * a value captured or computed at the wrong TIME: before instead of after a state update, a stale copy used after the original was modified, a height / timestamp / feerate sampled once and reused;
 * cleanup / pruning / eviction that removes slightly too much or too little (an off-by-one window, the wrong end of a queue, the current instead of the previous entry).
Avoid deleting a check, deleting a removal, or adding an extra condition in front of an action (those were the themes of earlier rounds); avoid the best-known central guard of the best-known function.
When you run a crate's whole lib suite use `timeout 1200 cargo test --offline -p <crate> --lib -- --test-threads 8`; one threaded test of the
repository (chanmon_update_fail_tests::test_single_channel_multiple_mpp) occasionally dead-locks on a loaded machine whatever the patch - if a run
hangs there, kill it and run it again rather than waiting.""",
 'r6': """Kinds of change I am most interested in this time (pick two DIFFERENT kinds, in two DIFFERENT functions, ideally in two different files):
 * an ADDED or NARROWED thing rather than a deleted one: an extra condition and-ed into an existing `if` (so that an action silently stops happening in
   one situation), an extra early `return` / `continue` for a case that looked redundant, an extra state write or an extra removal / event / message
   (something done twice), a `match` arm made more specific so that a case falls into the default arm;
 * a wrong-but-type-compatible LOCAL variable, loop variable, tuple element or closure parameter (not a struct field): the outer instead of the inner
   binding, the value before instead of after an update, the index instead of the count, `a.min(b)` for `a.max(b)`, `&&` for `||`, `.0` for `.1`;
 * idempotency and duplicates: a message, block, transaction, update or event delivered twice or replayed after reconnect / restart / reorg is applied
   twice, or its second delivery is rejected where it must be accepted (or the other way round);
 * a data-structure invariant that other code relies on: sorted order, uniqueness, an index map kept in step with its vector, a counter kept in step
   with a set, a cache not invalidated when its source changes;
 * a trait default method, generic helper, macro or conversion used by several callers, changed so that only ONE caller's use breaks;
 * concurrency / asynchrony: a lock released and re-taken between a check and the act it guards, two locks taken in the other order, an atomic flag
   set before instead of after the work it announces, an async completion handled out of order.
Avoid the best-known central guard of the best-known function, and avoid simply deleting a check or a removal: sibling routines, second arms,
restart / reorg / reconnect paths and helpers are better.
When you run a crate's whole lib suite use `timeout 1200 cargo test --offline -p <crate> --lib -- --test-threads 8`; one threaded test of the
repository (chanmon_update_fail_tests::test_single_channel_multiple_mpp) occasionally dead-locks on a loaded machine whatever the patch - if a run
hangs there, kill it and run it again rather than waiting.""",
 'r5': """Kinds of change I am most interested in this time (pick two DIFFERENT kinds, in two DIFFERENT functions, ideally in two different files):
 * a defect in code that is NOT named in the anchors above but on which the property depends: a helper in another module, a conversion
   (From / TryFrom / Into), a Default, an Ord / PartialEq / Hash impl, an iterator adaptor chain, a small accessor, a macro-generated arm;
 * a state-machine slip: a flag or state set / cleared at the wrong moment, not reset on reconnect or restart, or tested in the wrong state;
 * error handling: an error swallowed, mapped to the wrong variant or severity, or an early `return Ok(..)` / `continue` that leaves partial state behind;
 * the order of two operations that each are fine (record before act, remove before insert, persist before send, event before state change, drain before check);
 * collections: a wrong key, an entry overwritten instead of merged, a stale entry not removed, an iteration that stops early (find / take_while / any vs. filter / all), a missing or extra dedup;
 * arithmetic: saturating vs checked vs wrapping, rounding direction (div_ceil vs floor), msat -> sat truncation on the wrong side, a fee or weight computed for the wrong transaction shape.
Avoid the best-known central guard of the best-known function; sibling routines, second arms, restart / reorg / reconnect paths and helpers are better.
When you run a crate's whole lib suite use `timeout 1200 cargo test --offline -p <crate> --lib -- --test-threads 8`; one threaded test of the
repository (chanmon_update_fail_tests::test_single_channel_multiple_mpp) occasionally dead-locks on a loaded machine whatever the patch - if a run
hangs there, kill it and run it again rather than waiting.""",
 'r4': """Kinds of change I am most interested in this time (pick two DIFFERENT kinds, in two DIFFERENT functions, ideally in two different files):
 * an interaction between two features that each work alone (splicing / pending splice candidates, anchor and zero-fee-commitment channel types, 0-conf and SCID aliases, async payments / static invoices, trampoline, blinded paths and dummy hops, dual-funded v2 open, quiescence, interception, phantom nodes, batch funding, MPP + keysend, held HTLCs, async signing, async persistence);
 * a rarely used public entry point or timer path (force close variants, abandon_payment, fail_htlc_backwards_with_reason, timer_tick_occurred, peer_disconnected at an odd moment, signer_unblocked, rebroadcast / bump paths, archive / prune paths, rapid gossip sync, remove-stale routines);
 * a units / width / sign / index mix-up between two type-compatible quantities (msat vs sat, per-kw vs per-vbyte, blocks vs seconds, commitment number vs. its 2^48-1 complement, local vs remote index, inbound vs outbound, holder vs counterparty parameter, previous vs current);
 * an off-by-one or wrong inclusive/exclusive bound on a counter, window, retry count, buffer or height that only matters at the boundary;
 * bookkeeping that is updated on the main path but not on an early-return / error / duplicate-message / already-known path (or is cleaned up on one removal path but not its twin);
 * a default, config flag or feature-bit test consulted on the wrong side (ours vs theirs) or at the wrong time (negotiated vs current config).
Avoid the most obvious targets (the central guard of the best-known function): choose helpers, sibling routines, second arms, conversion functions and restart/reorg/reconnect paths.""",
}
print("""You are helping to evaluate a verification harness for the Rust library rust-lightning (LDK). Your job is to write two
independent, realistic DEFECTS (source changes to the library, not to its tests) that each break the property below while the library still
compiles and its existing test suite still passes, and for each a DEMONSTRATION test that passes on the unchanged tree and fails with the change.

Your scratch git worktree of the repository is /tmp/wt/%(tag)s (a detached worktree at the pinned commit). Work ONLY inside it. Never touch /repo
or /verif and do not read anything under /verif. There is no network; use `cargo test --offline`. The machine is shared with other jobs: set
CARGO_BUILD_JOBS=6 and run targeted tests (`cargo test --offline -p <crate> --lib <name>`), and the crate's whole lib test-suite only to confirm
that it still passes with your change.

THE PROPERTY (%(id)s: %(title)s)
Statement: %(statement)s
Quantified over: %(qtext)s
Why the existing tests cannot settle it: %(why)s
Anchors (where the behaviour lives): %(anchors)s

WHAT TO PRODUCE - two defects m1 and m2, each:
 1. is a small, plausible change a maintainer could make by mistake or as a "clean-up"/"optimisation" (a few lines, possibly two cooperating sites
    that each look fine alone); it must COMPILE (no new warnings turned errors) and the existing tests of every crate you touch must PASS
    (lightning: `cargo test --offline -p lightning --lib`; other crates: `cargo test --offline -p <crate>`);
 2. really breaks the property as stated (observable through the public API / observable effects), and needs something SPECIFIC to manifest:
    a particular interleaving, a crash or fault at a particular point, a multi-step sequence of operations, an unusual input or boundary value,
    a rarely taken arm - not something ordinary use exposes at once;
 3. comes with a demonstration: a new #[test] (put it in the crate's existing test modules, e.g. a new fn in an existing *_tests.rs file, using
    the existing test utilities) that PASSES on the unchanged tree and FAILS with the defect. Run it both ways yourself.

%(emph)s

DELIVERABLES - for k in {1,2} write into /tmp/seed-out/%(tag)s/m<k>/ :
 * patch.diff  - `git diff` of the library change only (no test), relative to the worktree root, applying with `git apply` on a clean tree;
 * demo.diff   - `git diff` of the demonstration test only, applying on a clean tree (and together with patch.diff);
 * meta.json   - {"property": "%(id)s", "summary": "<what the change does and why it breaks the property, 3-8 sentences, name file and function>",
                  "needs_to_manifest": "<what specific situation is needed>", "files_changed": ["<library files in patch.diff>"],
                  "demo_test": "<test fn name>", "demo_cmd": "cargo test --offline -p <crate> --lib <test fn name>",
                  "ran": ["<each command you ran for the final versions and its outcome>"]}
   (for crates whose tests are not lib tests drop `--lib` in demo_cmd accordingly.)
Leave the worktree clean (git checkout -- . ; remove untracked files except target/) when you finish, but keep target/ for re-use.
If after honest effort you can only produce one defect that satisfies everything, deliver one and say so. Do not deliver a change whose
demonstration you have not run both ways, or one that makes an existing test fail. In your final answer give, per defect, one paragraph.""" % dict(
	tag=tag, id=prop['id'], title=prop['title'], statement=prop['statement'], qtext=prop['quantifier']['text'],
	why=prop['why_tests_cant'], anchors=json.dumps(prop['anchors']), emph=EMPH[emph]))
