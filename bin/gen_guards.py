#!/usr/bin/env python3
"""Writes rules/guards_table.json for /repo's current tree (per build profile): (file, function, callee key) -> sorted tuple of the numbers of
branch conditions each call site is control dependent on. usage: gen_guards.py [--write]  (without --write: prints the differences)"""
import sys, json, os, importlib.machinery, importlib.util
sys.path.insert(0, '/verif/rules')
import engine, guards
loader = importlib.machinery.SourceFileLoader('check', '/verif/check'); spec = importlib.util.spec_from_loader('check', loader); m = importlib.util.module_from_spec(spec); loader.exec_module(m)
p = '/verif/rules/guards_table.json'
old = json.load(open(p)) if os.path.exists(p) else {}
new = {}
for prof in ('release', 'dev'):
	F = engine.Facts(m.ensure_facts(prof)[0])
	tab, where, known = guards.census(F)
	new[prof] = [[k[0], k[1], k[2], list(v)] for k, v in sorted(tab.items())]
	o = {(r[0], r[1], r[2]): tuple(r[3]) for r in old.get(prof, [])}
	diff = [(k, o.get(k), v) for k, v in sorted(tab.items()) if o.get(k) != v]
	print(prof, 'keys', len(tab), 'differing from table', len(diff))
	for d in diff[:40]:
		print('   ', d)
if '--write' in sys.argv:
	json.dump(new, open(p, 'w'), separators=(',', ':'))
	print('written')
