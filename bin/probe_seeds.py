#!/usr/bin/env python3
"""usage: probe_seeds.py <python expr over F giving results> <seed-id> [...]  [-j N]
dev helper: applies each kept seed to a scratch copy, extracts facts and evaluates one expression (e.g. a new census over the whole
workspace) on them; prints the failing keys. Nothing is executed from the seed."""
import sys, os, json, subprocess, tempfile, shutil, concurrent.futures
HERE = '/verif'
expr = sys.argv[1]
ids = [a for a in sys.argv[2:] if not a.startswith('-')]
jobs = int(sys.argv[sys.argv.index('-j') + 1]) if '-j' in sys.argv else 3
if '-j' in sys.argv: ids = [i for i in ids if i != sys.argv[sys.argv.index('-j') + 1]]
def one(sid):
	tmp = tempfile.mkdtemp(prefix='verif-probe-')
	try:
		repo = os.path.join(tmp, 'repo')
		subprocess.run(['rsync', '-a', '--exclude', '.git', '--exclude', 'target', '--exclude', 'fuzz', '/repo/', repo + '/'], check=True)
		pf = os.path.join(HERE, 'seeded', sid, 'patch.rebased.diff')
		if not os.path.exists(pf): pf = os.path.join(HERE, 'seeded', sid, 'patch.diff')
		r = subprocess.run(['git', 'apply', '--whitespace=nowarn', pf], cwd=repo, stdout=subprocess.PIPE, stderr=subprocess.STDOUT, text=True)
		if r.returncode != 0: return sid, 'stale', []
		facts = os.path.join(tmp, 'facts'); tgt = os.path.join(tmp, 'target')
		subprocess.run(['cp', '-a', os.path.join(HERE, '.work', 'target'), tgt], check=True)
		r = subprocess.run([os.path.join(HERE, 'bin', 'extract.sh'), repo, facts, tgt, 'release'], stdout=subprocess.PIPE, stderr=subprocess.STDOUT, text=True)
		if r.returncode != 0: return sid, 'broken', [r.stdout[-300:]]
		code = ('import sys, json; sys.path.insert(0, %r); import engine, provenance, mutations; F = engine.Facts(%r); rs = %s; '
			'print(json.dumps([r.key for r in rs if not r.ok]))') % (os.path.join(HERE, 'rules'), facts, expr)
		r = subprocess.run([sys.executable, '-c', code], stdout=subprocess.PIPE, stderr=subprocess.PIPE, text=True)
		if r.returncode != 0: return sid, 'crash', [r.stderr[-400:]]
		return sid, 'ok', json.loads(r.stdout.strip().splitlines()[-1])
	finally:
		shutil.rmtree(tmp, ignore_errors=True)
with concurrent.futures.ThreadPoolExecutor(max_workers=jobs) as ex:
	for sid, st, keys in ex.map(one, ids):
		print(sid, st, keys)
