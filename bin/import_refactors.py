#!/usr/bin/env python3
"""usage: import_refactors.py <tag e.g. RF1>
Imports the behaviour-preserving changes an independent sub-agent wrote into /tmp/seed-out/<tag>/rNN.{diff,json} as negative controls:
selftest/refactors/<tag>-<id>.diff + an entry {"id", "what", "patch", "author"} in selftest/refactors.json (run by bin/refactor_check.py)."""
import json, os, sys, glob, shutil
HERE = os.path.dirname(os.path.dirname(os.path.abspath(__file__)))
tag = sys.argv[1]
rf = os.path.join(HERE, 'selftest', 'refactors.json')
ms = json.load(open(rf))
have = {m['id'] for m in ms}
os.makedirs(os.path.join(HERE, 'selftest', 'refactors'), exist_ok=True)
for d in sorted(glob.glob('/tmp/seed-out/%s/r*.diff' % tag)):
	j = d[:-5] + '.json'
	meta = json.load(open(j)) if os.path.exists(j) else {}
	rid = '%s-%s' % (tag, meta.get('id') or os.path.basename(d)[:-5])
	if rid in have:
		continue
	rel = os.path.join('selftest', 'refactors', rid + '.diff')
	shutil.copy(d, os.path.join(HERE, rel))
	ms.append({'id': rid, 'what': '%s: %s [%s, %s] - %s' % (meta.get('kind', '?'), meta.get('what', ''), meta.get('file', ''), meta.get('function', ''), meta.get('why_preserving', '')),
		'patch': rel, 'author': 'independent sub-agent asked for behaviour-preserving clean-ups (given nothing from /verif)'})
	print('imported', rid)
json.dump(ms, open(rf, 'w'), indent=1)
