#!/usr/bin/env python3
"""Regenerates /verif/MANIFEST.json from the rule modules present in rules/ (one check per Cxx.py)."""
import json, os, sys, importlib
sys.path.insert(0, '/verif/rules')
NA = {}
NOT_BUILT = 'static check for this property is not built yet (planned rule table in DESIGN.md section 4); not claimed until it runs'
TECH = {}
def census_note(mod):
	names = {'p': 'same-name field transfers', 'q': 'swapped arguments', 'w': 'narrow arithmetic widened afterwards', 'v': 'field-versus-field comparisons', 'x': 'fixed-array range indexing', 'z': 'named constants',
		'o': 'hand-written eq/ord/hash impls', 'u': 'obligation-carrying values never dropped unexamined', 't': 'identity comparisons', 'y': 'dropped Results', 's': 'short-circuiting iterator adaptors',
		'R': 'state resets', 'P': 'panic sites', 'M': 'stored-collection mutations', 'E': 'event replay', 'A': 'enum accessor sibling agreement', 'G': 'guard census (no act gained a controlling condition)',
		'I': 'parse-position independence', 'W': 'field assignments', 'X': 'error propagation after a failed step', 'N': 'arithmetic kinds', 'K': 'constants and coefficients of linear forms (comparisons and arithmetic expressions)'}
	ids = []
	for rid, desc, fn in mod.RULES:
		if rid[-2] == '.' and rid[-1] in names and rid[-1] not in ids:
			ids.append(rid[-1])
	return (' Also evaluated on the files / types of this property: the crate-wide censuses and generic rules of rules/provenance.py, mutations.py, guards.py, writes.py, accessors.py, parsepos.py, errprop.py, eventloops.py, arith.py, linforms.py (%s).' % ', '.join(names[i] for i in ids)) if ids else ''
props = [json.loads(l)['id'] for l in open('/verif/properties.jsonl')]
checks = []
na = []
served = []
for pid in props:
	if os.path.exists('/verif/rules/%s.py' % pid) and pid not in NA:
		mod = importlib.import_module(pid)
		served.append(pid)
		checks.append({
			'property_id': pid,
			'quick_cmd': './check %s --tier quick' % pid,
			'thorough_cmd': './check %s --tier thorough' % pid,
			'evidence_file': '/verif/evidence/%s.json' % pid,
			'replay_cmd_template': './check %s --replay {path}' % pid,
			'engine': 'rules',
			'level_claimed': {'category': 'other',
				'text': 'Exhaustive static check (every path of the analysed functions, every matching site in the workspace library build; quick = release profile, thorough = release + dev profiles and the mutation self-test) of the structural necessary conditions of %s listed in DESIGN.md sections 4 and 8. It decides those conditions, not the behavioural property as a whole: %s%s' % (pid, mod.EXPLANATION[:600], census_note(mod)),
				'design_ref': 'DESIGN.md section 4, %s' % pid},
			'level_note': 'Trusted: nightly rustc MIR construction and trait resolution; the frozen sets in rules/%s.py (each confirmed by reading the code); %s' % (pid, '; '.join(getattr(mod, 'ASSUMPTIONS', []))),
			'technique': getattr(mod, 'TECHNIQUE', 'static analysis: custom MIR-level rules (call-graph / construction / field-write censuses, guarded-act and must-pass-through path rules, comparison normal forms) over the type-checked program'),
		})
	else:
		na.append({'property_id': pid, 'reason': NA.get(pid, NOT_BUILT)})
man = {
 'version': 1,
 'setup_cmd': './setup.sh',
 'hooks': {
  'guard': 'none (no source change in /repo is needed: the analysis reads the type-checked program through a rustc_private driver)',
  'enable': 'n/a - checks run `cargo +nightly check` on /repo\'s working tree with RUSTC_WORKSPACE_WRAPPER=/verif/driver/target/release/verif-driver',
  'baseline_off_cmd': 'cd /repo && cargo test --workspace --no-fail-fast --offline',
  'source_commits': [],
  'add_only': True,
 },
 'engines': [
  {'name': 'mir-facts', 'path': 'driver/', 'serves_properties': served, 'kind_free_text': 'rustc_private driver dumping calls, constructions, field accesses, constants, impls and per-function MIR CFGs of the workspace library crates'},
  {'name': 'rules', 'path': 'rules/', 'serves_properties': served, 'kind_free_text': 'python rule engine: who-may-call / construct / field-write censuses, guarded-act and must-pass-through path rules, comparison normal forms, table extraction'},
 ],
 'checks': checks,
 'not_applicable': na,
 'notes': 'All checks are static analyses of /repo\'s current working tree (facts re-extracted whenever any source file changes). See DESIGN.md.',
}
if os.path.isdir('/verif/synx'):
	man['engines'].append({'name': 'synx', 'path': 'synx/', 'serves_properties': [p for p in served if p in ('C12', 'C13', 'C14', 'C18', 'C06', 'C10', 'C17')], 'kind_free_text': 'syn-2 extractor of un-expanded TLV macro tables (writer/reader table agreement)'})
json.dump(man, open('/verif/MANIFEST.json', 'w'), indent=1)
print('checks:', served, 'not_applicable:', [x['property_id'] for x in na])
