#!/usr/bin/env python3
"""usage: keep_seed.py <prop> <mk> <detected_by: comma list of rule ids or ''> <status: caught|caught-after-strengthening|missed> [note]
Copies a confirmed seeded defect from /tmp/seed-out/<prop>/<mk> into /verif/seeded/<prop>-<mk>/ with a consolidated meta.json."""
import json, os, shutil, sys
prop, mk, det, status = sys.argv[1:5]
note = sys.argv[5] if len(sys.argv) > 5 else ''
src = '/tmp/seed-out/%s/%s' % (prop, mk)
dst = '/verif/seeded/%s-%s' % (prop, mk)
os.makedirs(dst, exist_ok=True)
for f in ('patch.diff', 'demo.diff'):
	shutil.copy(os.path.join(src, f), os.path.join(dst, f))
meta = json.load(open(os.path.join(src, 'meta.json')))
conf = json.load(open(os.path.join(src, 'confirm.json'))) if os.path.exists(os.path.join(src, 'confirm.json')) else {}
out = {
	'property': meta.get('property', prop), 'round': (prop[-1] if len(prop) > 3 and prop[-2] == 'r' and prop[-1].isdigit() else '1'), 'mutant': mk,
	'summary': meta.get('summary'), 'needs_to_manifest': meta.get('needs_to_manifest'),
	'files_changed': meta.get('files_changed'), 'demo_test': meta.get('demo_test'), 'demo_cmd': meta.get('demo_cmd'),
	'author': 'independent sub-agent given only the property text and a scratch worktree',
	'confirmed': {
		'how': 'bin/confirm_seed.py in the scratch worktree: demo on pristine tree, demo with patch, existing tests of the touched crate(s) with patch',
		'demo_without_patch_rc': conf.get('demo_without_patch', {}).get('rc'),
		'demo_with_patch_rc': conf.get('demo_with_patch', {}).get('rc'),
		'demo_with_patch_tail': (conf.get('demo_with_patch', {}).get('tail') or '')[-400:],
		'suite_with_patch': {k: v.get('out', '')[-300:] for k, v in (conf.get('suite_with_patch') or {}).items()},
	},
	'agent_ran': meta.get('ran'),
	'status': status, 'detected_by': [x for x in det.split(',') if x], 'note': note,
}
json.dump(out, open(os.path.join(dst, 'meta.json'), 'w'), indent=1)
print('kept', dst, status, out['detected_by'])
