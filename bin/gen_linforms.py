#!/usr/bin/env python3
"""Writes rules/linforms_table.json for /repo's current tree (per build profile). usage: gen_linforms.py [--write]"""
import sys, json, os, importlib.machinery, importlib.util, time
sys.path.insert(0, '/verif/rules')
import engine, linforms
loader = importlib.machinery.SourceFileLoader('check', '/verif/check'); spec = importlib.util.spec_from_loader('check', loader); m = importlib.util.module_from_spec(spec); loader.exec_module(m)
p = '/verif/rules/linforms_table.json'
old = json.load(open(p)) if os.path.exists(p) else {}
allres = sorted({r for res, fl in linforms.SCOPE.values() for r in res})
new = {}
for prof in ('release', 'dev'):
	t0 = time.time()
	F = engine.Facts(m.ensure_facts(prof)[0])
	tab, where, known = linforms.census(F, allres)
	T = {}
	for (fl, tail, shape), vs in sorted(tab.items()):
		T.setdefault(fl, {}).setdefault(tail, {})[shape] = sorted([list(v[0]), v[1]] for v in vs)
	new[prof] = T
	o = old.get(prof, {})
	nd = 0
	for fl in T:
		for tail in T[fl]:
			for shape, vs in T[fl][tail].items():
				ov = o.get(fl, {}).get(tail, {}).get(shape)
				if ov is not None and ov != vs:
					nd += 1
					if nd < 30: print('   differs', fl, tail, shape[:100], ov, '->', vs)
	print(prof, 'functions', sum(len(v) for v in T.values()), 'shapes', len(tab), 'variants', sum(len(v) for v in tab.values()), 'differing from table', nd, '%.0fs' % (time.time() - t0))
if '--write' in sys.argv:
	json.dump(new, open(p, 'w'), separators=(',', ':'))
	print('written')
