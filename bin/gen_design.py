#!/usr/bin/env python3
"""Regenerates the generated blocks of DESIGN.md: the rule tables (section 8, from rules/Cxx.py RULES) and the seeded-defect table
(section 9, from seeded/*/meta.json). Blocks are delimited by <!-- gen:NAME --> ... <!-- /gen:NAME -->."""
import glob, importlib, json, os, re, sys
HERE = os.path.dirname(os.path.dirname(os.path.abspath(__file__)))
sys.path.insert(0, os.path.join(HERE, 'rules'))

def rules_block():
	props = {}
	for l in open(os.path.join(HERE, 'properties.jsonl')):
		if l.strip():
			p = json.loads(l); props[p['id']] = p
	out = ['']
	for f in sorted(glob.glob(os.path.join(HERE, 'rules', 'C[0-9][0-9].py'))):
		pid = os.path.basename(f)[:-3]
		m = importlib.import_module(pid)
		out.append('**%s** - %s' % (pid, props[pid].get('title') or props[pid].get('name') or ''))
		out.append('')
		for rid, desc, fn in m.RULES:
			out.append('* `%s` %s' % (rid, desc))
		out.append('')
		out.append('')
	return '\n'.join(out)

def _clean(s, n):
	s = re.sub(r'\s+', ' ', s or '').replace('|', '/')
	return s[:n]

def seeds_block():
	rows = []
	n = {'caught': 0, 'caught-after-strengthening': 0, 'missed': 0}
	rounds = {}
	for d in sorted(glob.glob(os.path.join(HERE, 'seeded', '*'))):
		mp = os.path.join(d, 'meta.json')
		if not os.path.exists(mp):
			continue
		m = json.load(open(mp))
		n[m['status']] = n.get(m['status'], 0) + 1
		r = m.get('round', '1')
		rounds.setdefault(r, {'n': 0, 'caught': 0})
		rounds[r]['n'] += 1
		rounds[r]['caught'] += m['status'] == 'caught'
		rows.append('| %s | %s | %s | %s | %s |' % (os.path.basename(d), m['status'], ', '.join(m.get('detected_by') or []), _clean(m.get('summary'), 230), _clean(m.get('note'), 260)))
	tot = sum(n.values())
	head = ['', 'Totals: %d seeds; %d caught, %d caught-after-strengthening, %d undetected. %s.' % (tot, n['caught'], n['caught-after-strengthening'], n.get('missed', 0),
		'; '.join('round %s: %d seeds, %d caught as the tables stood' % (r, v['n'], v['caught']) for r, v in sorted(rounds.items()))), '',
		'| seed | status | reporting rule(s) | what the change does | note |', '|------|--------|-------------------|----------------------|------|']
	return '\n'.join(head + rows + [''])

def main():
	p = os.path.join(HERE, 'DESIGN.md')
	s = open(p).read()
	for name, fn in (('rules', rules_block), ('seeds', seeds_block)):
		a, b = '<!-- gen:%s -->' % name, '<!-- /gen:%s -->' % name
		if a not in s or b not in s:
			sys.exit('marker %s missing in DESIGN.md' % name)
		i, j = s.index(a) + len(a), s.index(b)
		s = s[:i] + '\n' + fn() + '\n' + s[j:]
	open(p, 'w').write(s)
	print('DESIGN.md regenerated')
main()
