#!/usr/bin/env python3
"""Mutation self-test of the rule tables (static: mutants are analysed, never run).

usage: selftest.py Cxx [Cyy ...] [-j N] [--only <mutant-id-substring>] [--json out.json]

For every mutant recorded in selftest/Cxx.json a scratch copy of /repo's working tree is made
under a fresh temporary directory, the edit is applied there, facts are extracted from the copy
(own target dir, seeded from the warm dependency cache) and the rule table of Cxx is evaluated.
Expected: at least one failing result whose rule id is in the mutant's `expect` list.  The
scratch copy, its facts and its build output are removed afterwards.
Outcome per mutant: detected | MISSED | stale (the `find` text no longer occurs: source moved) |
broken (the mutant does not compile)."""
import sys, os, json, subprocess, tempfile, shutil, time, concurrent.futures

HERE = os.path.dirname(os.path.dirname(os.path.abspath(__file__)))
sys.path.insert(0, os.path.join(HERE, 'rules'))
REPO = os.environ.get('VERIF_REPO', '/repo')

def run_mutant(pid, m):
	t0 = time.time()
	res = {'property': pid, 'mutant': m['id'], 'expect': m['expect'], 'why': m.get('why', '')}
	tmp = tempfile.mkdtemp(prefix='verif-selftest-')
	try:
		repo = os.path.join(tmp, 'repo')
		subprocess.run(['rsync', '-a', '--exclude', '.git', '--exclude', 'target', '--exclude', 'fuzz', REPO + '/', repo + '/'], check=True)
		if m.get('patch'):
			pf = m['patch'] if os.path.isabs(m['patch']) else os.path.join(HERE, m['patch'])
			r = subprocess.run(['git', 'apply', '--whitespace=nowarn', pf], cwd=repo, stdout=subprocess.PIPE, stderr=subprocess.STDOUT, text=True)
			if r.returncode != 0:
				res['outcome'] = 'stale'; res['note'] = 'patch does not apply: ' + r.stdout[-300:]
				return res
		edits = m.get('edits') or ([{'file': m['file'], 'find': m['find'], 'replace': m['replace']}] if m.get('file') else [])
		for e in edits:
			p = os.path.join(repo, e['file'])
			if not os.path.exists(p):
				res['outcome'] = 'stale'; res['note'] = 'file missing: ' + e['file']
				return res
			src = open(p).read()
			n = src.count(e['find'])
			want = e.get('count', 1)
			if n != want:
				res['outcome'] = 'stale'; res['note'] = '`find` occurs %d times in %s (expected %d)' % (n, e['file'], want)
				return res
			src = src.replace(e['find'], e['replace'])
			open(p, 'w').write(src)
		facts = os.path.join(tmp, 'facts')
		tgt = os.path.join(tmp, 'target')
		warm = os.path.join(HERE, '.work', 'target')
		if os.path.isdir(warm):
			subprocess.run(['cp', '-a', warm, tgt], check=True)
		r = subprocess.run([os.path.join(HERE, 'bin', 'extract.sh'), repo, facts, tgt, 'release'], stdout=subprocess.PIPE, stderr=subprocess.STDOUT, text=True)
		if r.returncode != 0:
			res['outcome'] = 'broken'; res['note'] = r.stdout[-600:]
			return res
		# evaluate in a subprocess (fresh module state)
		code = ('import sys, json; sys.path.insert(0, %r); import runner; rs, st = runner.run_property(%r, %r); '
			'print(json.dumps([{"rule": r.rule, "key": r.key, "msg": r.msg[:300], "where": r.where} for r in rs if not r.ok]))') % (os.path.join(HERE, 'rules'), pid, facts)
		r = subprocess.run([sys.executable, '-c', code], stdout=subprocess.PIPE, stderr=subprocess.PIPE, text=True)
		if r.returncode != 0:
			res['outcome'] = 'broken'; res['note'] = 'rule evaluation crashed: ' + r.stderr[-600:]
			return res
		bad = json.loads(r.stdout.strip().splitlines()[-1])
		res['fired'] = [{'rule': b['rule'], 'key': b['key'], 'where': b['where']} for b in bad]
		hit = [b for b in bad if b['rule'] in m['expect'] or any(b['rule'].startswith(x) for x in m['expect'])]
		res['outcome'] = 'detected' if hit else 'MISSED'
		res['others'] = sorted({b['rule'] for b in bad if b not in hit})
		if hit:
			res['report'] = '%s [%s]: %s' % (hit[0]['rule'], hit[0]['where'], hit[0]['msg'][:200])
		return res
	finally:
		res['wall_s'] = round(time.time() - t0, 1)
		if os.environ.get('VERIF_KEEP_SCRATCH'):
			res['scratch'] = tmp
			print('scratch kept:', tmp)
		else:
			shutil.rmtree(tmp, ignore_errors=True)

def load(pid):
	out = []
	p = os.path.join(HERE, 'selftest', pid + '.json')
	if os.path.exists(p):
		out += json.load(open(p))
	# independently seeded defects (written by sub-agents that never saw /verif): seeded/<id>/{patch.diff,meta.json}
	sd = os.path.join(HERE, 'seeded')
	if os.path.isdir(sd):
		for d in sorted(os.listdir(sd)):
			mp = os.path.join(sd, d, 'meta.json')
			if os.path.exists(mp):
				meta = json.load(open(mp))
				if meta.get('property') == pid and meta.get('detected_by'):
					pf = 'patch.rebased.diff' if os.path.exists(os.path.join(sd, d, 'patch.rebased.diff')) else 'patch.diff'
					out.append({'id': 'seeded:' + d, 'patch': os.path.join('seeded', d, pf), 'expect': meta['detected_by'], 'why': meta.get('summary', '')[:200]})
	return out

def run(pids, jobs=4, only=None):
	work = []
	for pid in pids:
		for m in load(pid):
			if only and only not in m['id']:
				continue
			work.append((pid, m))
	out = []
	with concurrent.futures.ThreadPoolExecutor(max_workers=jobs) as ex:
		futs = [ex.submit(run_mutant, pid, m) for pid, m in work]
		for f in futs:
			out.append(f.result())
	return out

if __name__ == '__main__':
	args = sys.argv[1:]
	jobs, only, js = 4, None, None
	pids = []
	i = 0
	while i < len(args):
		if args[i] == '-j':
			jobs = int(args[i + 1]); i += 2
		elif args[i] == '--only':
			only = args[i + 1]; i += 2
		elif args[i] == '--json':
			js = args[i + 1]; i += 2
		else:
			pids.append(args[i]); i += 1
	res = run(pids, jobs, only)
	for r in res:
		print('%-9s %s %-28s expect %s fired %s %s (%.0fs)' % (r['outcome'], r['property'], r['mutant'], r['expect'], sorted({f['rule'] for f in r.get('fired', [])}), r.get('note', '')[:200], r['wall_s']))
		if r.get('report'):
			print('          ' + r['report'])
	if js:
		json.dump(res, open(js, 'w'), indent=1)
	sys.exit(0 if all(r['outcome'] in ('detected', 'stale') for r in res) else 2)
