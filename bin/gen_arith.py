#!/usr/bin/env python3
"""Writes rules/arith_table.json for /repo's current tree (per build profile). usage: gen_arith.py [--write]"""
import sys, json, os, importlib.machinery, importlib.util
sys.path.insert(0, '/verif/rules')
import engine, arith
loader = importlib.machinery.SourceFileLoader('check', '/verif/check'); spec = importlib.util.spec_from_loader('check', loader); m = importlib.util.module_from_spec(spec); loader.exec_module(m)
p = '/verif/rules/arith_table.json'
old = json.load(open(p)) if os.path.exists(p) else {}
new = {}
for prof in ('release', 'dev'):
	F = engine.Facts(m.ensure_facts(prof)[0])
	tab, where, known = arith.census(F)
	new[prof] = {'counts': [list(k) + [c] for k, c in sorted(tab.items())], 'functions': sorted([fl, t] for fl, ts in known.items() for t in ts)}
	o = {tuple(r[:4]): r[4] for r in old.get(prof, {}).get('counts', [])}
	diff = [(k, o.get(k), v) for k, v in sorted(tab.items()) if o.get(k) != v] + [(k, v, 0) for k, v in o.items() if k not in tab]
	print(prof, 'keys', len(tab), 'ops', sum(tab.values()), 'differing from table', len(diff))
	for d in diff[:30]:
		print('   ', d)
if '--write' in sys.argv:
	json.dump(new, open(p, 'w'), separators=(',', ':'))
	print('written')
