#!/bin/bash
# usage: extract.sh <repo-dir> <facts-dir> <target-dir> <profile: release|dev> [extra cargo args]
# Runs the fact extractor over the workspace library crates of <repo-dir>.
set -u
REPO=$1; FACTS=$2; TGT=$3; PROFILE=${4:-release}; shift 4 || true
DRV=/verif/driver/target/release/verif-driver
[ -x "$DRV" ] || { echo "driver not built (run setup)"; exit 2; }
SYSROOT=$(rustc +nightly --print sysroot)
CRATES=lightning,lightning_invoice,lightning_persister,lightning_block_sync,lightning_types,lightning_background_processor,lightning_rapid_gossip_sync,lightning_net_tokio,lightning_liquidity,lightning_transaction_sync
PKGS="-p lightning -p lightning-invoice -p lightning-persister -p lightning-block-sync -p lightning-background-processor -p lightning-rapid-gossip-sync"
mkdir -p "$FACTS" "$TGT"
# force the wrapper to re-run for workspace members (cargo would replay cached output)
for d in "$TGT"/release "$TGT"/debug; do
  [ -d "$d/.fingerprint" ] && rm -rf "$d"/.fingerprint/lightning* "$d"/.fingerprint/possiblyrandom* 2>/dev/null
done
PF=""
[ "$PROFILE" = release ] && PF="--release"
RID=${VERIF_RUN_ID:-$(date +%s%N)}
cd "$REPO" || exit 2
LD_LIBRARY_PATH=$SYSROOT/lib CARGO_NET_OFFLINE=true CARGO_INCREMENTAL=0 \
 RUSTFLAGS="-Zmir-opt-level=0 -Awarnings" RUSTC_WORKSPACE_WRAPPER=$DRV \
 CARGO_TARGET_DIR=$TGT VERIF_FACTS_DIR=$FACTS VERIF_RUN_ID=$RID VERIF_CRATES=$CRATES \
 cargo +nightly check --offline $PF $PKGS "$@" > "$FACTS/cargo.log" 2>&1
rc=$?
if [ $rc -ne 0 ]; then tail -30 "$FACTS/cargo.log"; exit 3; fi
for c in lightning lightning_invoice lightning_persister lightning_block_sync lightning_types; do
  grep -q "run=$RID" "$FACTS/$c/DONE" 2>/dev/null || { echo "facts for $c not produced by this run"; exit 3; }
done
# un-expanded TLV macro tables (syntax-tree extraction)
python3 /verif/bin/run_synx.py "$REPO" "$FACTS/tlv.jsonl" || { echo "synx failed"; exit 3; }
echo "$RID" > "$FACTS/RUN_ID"
exit 0
